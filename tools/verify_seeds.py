"""Verify seeded mutants in a scratch worktree (never in /repo) and record which checks catch them.

usage: verify_seeds.py <seed-root> <out.json> [ids...]
For every <seed-root>/<PROP>/<k>/patch.diff:
  apply to a scratch worktree of /repo HEAD, run the repository's test suite against it
  (PYTHONPATH=<wt>/src), run demo.py (must fail), run the owning quick check (and extra checks
  listed below) with VERIF_REPO=<wt>, undo the patch, run demo.py again (must pass).
"""
import json
import os
import subprocess
import sys

ROOT, OUT = sys.argv[1], sys.argv[2]
ONLY = set(sys.argv[3:])
WT = os.environ.get("VERIFY_WT", "/tmp/wt_verify_seeds")
EXTRA = {"C01/3": ["C04"], "C07/1": ["C08", "C19"], "C08/2": ["C19"], "C06/1": ["C13"], "C02/2": ["C04"], "C01/2": ["C04"], "C15/3": ["C08"]}


def sh(cmd, env=None, timeout=1800):
    e = dict(os.environ)
    e.update(env or {})
    p = subprocess.run(cmd, shell=True, capture_output=True, text=True, env=e, timeout=timeout)
    return p.returncode, p.stdout + p.stderr


subprocess.run("git -C /repo worktree remove --force %s 2>/dev/null; git -C /repo worktree prune; git -C /repo worktree add -q --detach %s HEAD" % (WT, WT), shell=True, check=True)
res = json.load(open(OUT)) if os.path.exists(OUT) else {}
PRIOR = json.load(open(os.environ["VERIFY_PRIOR"])) if os.environ.get("VERIFY_PRIOR") else {}      # earlier results: tests / demonstration are not repeated
try:
    for prop in sorted(os.listdir(ROOT)):
        pdir = os.path.join(ROOT, prop)
        if not os.path.isdir(pdir):
            continue
        for k in sorted(os.listdir(pdir)):
            key = "%s/%s" % (prop, k)
            patch = os.path.join(pdir, k, "patch.diff")
            demo = os.path.join(pdir, k, "demo.py")
            if not os.path.exists(patch) or (ONLY and key not in ONLY and prop not in ONLY):
                continue
            r = {}
            rc, out = sh("git -C %s checkout -q -- . && git -C %s apply %s" % (WT, WT, patch))
            r["applies"] = rc == 0
            if rc != 0:
                r["apply_error"] = out[-300:]
                res[key] = r
                continue
            pr = PRIOR.get(key, {})
            known = pr.get("tests_pass") and pr.get("demo_with_patch_rc") not in (None, 0) and pr.get("demo_clean_rc") == 0
            if known:
                r.update({k_: pr[k_] for k_ in ("tests", "tests_pass", "demo_with_patch_rc", "demo_clean_rc")})
            else:
                rc, out = sh("cd %s && PYTHONPATH=%s/src /venv/bin/python -m pytest -q -p no:cacheprovider -x 2>&1 | tail -3" % (WT, WT))
                r["tests"] = [l for l in out.splitlines() if "passed" in l or "failed" in l][-1:] or [out[-200:]]
                r["tests_pass"] = any("144 passed" in l for l in r["tests"]) and not any("failed" in l for l in r["tests"])
            if os.path.exists(demo) and not known:
                rc, out = sh("cd %s && PYTHONPATH=%s/src /venv/bin/python %s" % (WT, WT, demo))
                r["demo_with_patch_rc"] = rc
            checks = {}
            for chk in [prop] + EXTRA.get(key, []):
                rc, out = sh("cd /verif && ./check %s --tier quick" % chk, env={"VERIF_REPO": WT, "VERIF_EVIDENCE_DIR": "/verif/out/evidence_scratch"})
                lines = [l for l in out.splitlines() if l.startswith("VIOLATION") or l.startswith("RESULT") or "signature" in l or l.startswith("MACHINERY")]
                checks[chk] = {"rc": rc, "first": lines[:3], "result": [l for l in lines if l.startswith("RESULT")][-1:]}
            r["checks"] = checks
            sh("git -C %s checkout -q -- ." % WT)
            if os.path.exists(demo) and not known:
                rc, out = sh("cd %s && PYTHONPATH=%s/src /venv/bin/python %s" % (WT, WT, demo))
                r["demo_clean_rc"] = rc
            res[key] = r
            json.dump(res, open(OUT, "w"), indent=1)
            print(key, "tests_pass=%s demo=%s/%s" % (r.get("tests_pass"), r.get("demo_with_patch_rc"), r.get("demo_clean_rc")),
                  {c: v["rc"] for c, v in checks.items()}, flush=True)
finally:
    subprocess.run("git -C /repo worktree remove --force %s; git -C /repo worktree prune" % WT, shell=True)
