#!/bin/sh
# usage: tools/try_patch.sh <patch.diff> <CHECK-ID>...   -- run checks against a scratch worktree with the patch applied (never /repo)
set -e
P="$(readlink -f "$1")"; shift
WT=/tmp/wt_try_$$
git -C /repo worktree add -q --detach "$WT" HEAD
trap 'git -C /repo worktree remove --force "$WT" >/dev/null 2>&1; git -C /repo worktree prune' EXIT
git -C "$WT" apply "$P"
cd "$(dirname "$0")/.."
for c in "$@"; do
  VERIF_EVIDENCE_DIR="$PWD/out/evidence_scratch" VERIF_REPO="$WT" ./check "$c" --tier "${TIER:-quick}" 2>&1 | grep -E "RESULT|signature|MACHINERY|SPEC-DRIFT|TLC-ERROR" | sort | uniq -c | cut -c1-220 | tail -6
done
