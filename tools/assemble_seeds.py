"""Copy verified seeded changes into /verif/seeded/<PROP>/<k>/ with a meta.json that carries the
verification record, and write seeded/SUMMARY.{json,md}."""
import json
import os
import shutil
import sys

SRC, VER = sys.argv[1], json.load(open(sys.argv[2]))
DST = os.path.join(os.path.dirname(os.path.dirname(os.path.abspath(__file__))), "seeded")
EXTRA_META = {
    "C01/3": {"property": "C01", "summary": "_transform, when refining, uses the ORIGINAL sibling terms as helpers instead of the current (already refined) ones, so two consumer assumptions can discharge each other circularly", "needs": "refinement of a list with two terms that mention the eliminated variable and can each serve as the other's helper (a consumer with two assumptions on the producer's output)", "files": ["src/pacti/terms/polyhedra/polyhedra.py"]},
    "C15/3": {"property": "C15", "summary": "merge prunes each side's guarantees against the other before the union (self.g.simplify(other.g) | other.g.simplify(self.g)): a guarantee implied by both viewpoints vanishes", "needs": "two viewpoints whose guarantees overlap (identical / equivalent rows)", "files": ["src/pacti/iocontract/iocontract.py"]},
}
rows = []
for key in sorted(VER):
    prop, k = key.split("/")
    v = VER[key]
    if not (v.get("applies") and v.get("tests_pass") and v.get("demo_with_patch_rc", 0) != 0 and v.get("demo_clean_rc", 1) == 0):
        print("NOT KEPT", key, {x: v.get(x) for x in ("applies", "tests_pass", "demo_with_patch_rc", "demo_clean_rc")})
        continue
    d = os.path.join(DST, prop, k)
    os.makedirs(d, exist_ok=True)
    for f in ("patch.diff", "demo.py"):
        shutil.copy(os.path.join(SRC, prop, k, f), os.path.join(d, f))
    mp = os.path.join(SRC, prop, k, "meta.json")
    meta = json.load(open(mp)) if os.path.exists(mp) else dict(EXTRA_META[key])
    caught = {c: r["rc"] for c, r in v["checks"].items()}
    meta["verification"] = {
        "what_was_run": "tools/verify_seeds.py in a scratch worktree of /repo HEAD (never in /repo): git apply; PYTHONPATH=<wt>/src pytest (the 146 collected tests); demo.py; ./check <ID> --tier quick with VERIF_REPO=<wt>; git checkout; demo.py again",
        "patch_applies_to_repaired_tree": True,
        "tests": v["tests"],
        "demo_rc_with_patch": v["demo_with_patch_rc"],
        "demo_rc_without_patch": v["demo_clean_rc"],
        "quick_checks_exit_code_with_patch": caught,
        "first_lines": {c: r["first"][:2] for c, r in v["checks"].items()},
    }
    json.dump(meta, open(os.path.join(d, "meta.json"), "w"), indent=1)
    rows.append({"seed": key, "breaks": meta.get("property", prop), "summary": meta.get("summary", ""), "needs": meta.get("needs", ""),
                 "caught_by": sorted(c for c, rc in caught.items() if rc == 1), "missed_by": sorted(c for c, rc in caught.items() if rc != 1)})
json.dump(rows, open(os.path.join(DST, "SUMMARY.json"), "w"), indent=1)
with open(os.path.join(DST, "SUMMARY.md"), "w") as f:
    f.write("# Seeded changes (all keep the 144 tests green) and the quick checks that catch them\n\n")
    f.write("| seed | what was changed | caught by (exit 1) | tried, not caught |\n|---|---|---|---|\n")
    for r in rows:
        f.write("| %s | %s | %s | %s |\n" % (r["seed"], r["summary"].replace("|", "\\|")[:260], ", ".join(r["caught_by"]) or "-", ", ".join(r["missed_by"]) or "-"))
print(len(rows), "seeds kept")
