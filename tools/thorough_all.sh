#!/bin/sh
# run the thorough tier of the listed checks (default: all) one after the other; one summary line each
cd "$(dirname "$0")/.."
for p in ${CHECKS:-C04 C17 C19 C12 C03 C07 C08 C13 C10 C11 C18 C09 C06 C14 C15 C02 C01 C16 C05}; do
  echo "=== $p"
  /usr/bin/time -f "%e s" ./check $p --tier thorough 2>&1 | grep -E "RESULT|VIOLATION|signature|MACHINERY|SPEC-DRIFT|TLC-ERROR| s$" | head -12
done
