"""Regenerate MANIFEST.json from the table below (run after adding a check)."""
import json, os
HERE = os.path.dirname(os.path.dirname(os.path.abspath(__file__)))
CHECKS = {}
NA = {}
def add(pid, text, note, technique, ref):
    CHECKS[pid] = dict(text=text, note=note, technique=technique, ref=ref)

exec(open(os.path.join(HERE, "tools", "manifest_table.py")).read())

props = [json.loads(l)["id"] for l in open(os.path.join(HERE, "properties.jsonl"))]
checks = []
for pid in props:
    if pid in CHECKS:
        c = CHECKS[pid]
        checks.append({
            "property_id": pid,
            "quick_cmd": "./check %s --tier quick" % pid,
            "thorough_cmd": "./check %s --tier thorough" % pid,
            "evidence_file": "/verif/evidence/%s.json" % pid,
            "replay_cmd_template": "./check %s --replay {path}" % pid,
            "engine": "tlc",
            "level_claimed": {"category": "model_checking", "text": c["text"], "design_ref": c["ref"]},
            "level_note": c["note"],
            "technique": c["technique"],
        })
na = [{"property_id": p, "reason": NA.get(p, "check not built yet in this round; planned in DESIGN.md section 6")} for p in props if p not in CHECKS]
m = {
    "version": 1,
    "setup_cmd": "./setup.sh",
    "hooks": {
        "guard": "PACTI_VERIF_TRACE",
        "enable": "no source hook is needed: checks observe the public API of /repo/src (PYTHONPATH=$VERIF_REPO/src) and finer events through an out-of-tree wrapper installed by the harness; PACTI_VERIF_TRACE is reserved",
        "baseline_off_cmd": "cd /repo && PYTHONPATH=/repo/src /venv/bin/python -m pytest -ra -q -p no:cacheprovider --timeout=900 --continue-on-collection-errors",
        "source_commits": [],
        "add_only": True,
    },
    "engines": [{"name": "tlc", "path": "/verif/spec", "serves_properties": sorted(CHECKS), "kind_free_text": "explicit TLA+ specification checked by TLC 1.8 (design-level model checking, generation, trace validation of recorded calls of the real library)"}],
    "checks": checks,
    "not_applicable": na,
    "notes": "See DESIGN.md. Every check: exit 0 held / exit 1 with VIOLATION line / exit 2 machinery failure. `./check selftest` demonstrates the binding: traces of the unchanged library are accepted by the trace specifications, the same traces with one recorded field corrupted are rejected by TLC. `seeded/` holds 264 single changes to the library (tests stay green) with the record of which quick checks catch them; `tools/verify_seeds.py` re-runs them in a scratch worktree.",
}
json.dump(m, open(os.path.join(HERE, "MANIFEST.json"), "w"), indent=1)
print("checks:", [c["property_id"] for c in checks], "na:", [n["property_id"] for n in na])
