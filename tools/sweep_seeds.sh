#!/bin/sh
# run every quick check for several seeds on the unchanged tree; print only runs that are not clean
cd "$(dirname "$0")/.."
for s in ${SEEDS:-1 2 3 4 5 6}; do
  for p in C01 C02 C03 C04 C05 C06 C07 C08 C09 C10 C11 C12 C13 C14 C15 C16 C17 C18 C19; do
    out=$(VERIF_SEED=$s ./check $p --tier quick 2>&1); rc=$?
    echo "seed=$s $p rc=$rc $(echo "$out" | grep RESULT | cut -c1-120)"
    if [ $rc -ne 0 ]; then echo "$out" | grep -E "VIOLATION|signature|MACHINERY|TLC-ERROR" | head -6; fi
  done
done
