add("C04",
    "TLA+ contract of elimination (Elim.tla over Poly.tla) validated by TLC against every recorded call of the real elim_vars_by_refining/relaxing: TLC checks exact Farkas certificates (implication holds for all real points of the box) or confirms a witness point in integer arithmetic, and sweeps its own integer grid; cases are generated per tactic order, both directions, simplify on/off.",
    "Trusted: TLC's evaluation of Poly.tla, the 60-line projection rows.py (snapping audited: deviation <= 1e-9 relative, transfer error < 5% of tolerance else unjudged). Hints (z3) are untrusted. Inputs bounded: <= 6 variables, small integer/dyadic coefficients.",
    "TLC trace validation of recorded calls against a TLA+ contract, certificate/witness checking in exact integer arithmetic",
    "DESIGN.md 4, 6/C04")
_OPS_NOTE = ("Trusted: TLC's evaluation of Poly.tla/Contracts.tla, the projection (rows.py/clauses.pcontract, snapping audited), "
             "and the exact re-confirmation of every witness on the unsnapped floats. Hints (z3) and the Python mirror of the clause "
             "lists are untrusted (a wrong hint fails to verify -> unjudged). Inputs bounded: <= 7 variables, <= 3 rows per list, "
             "small integer / dyadic coefficients; what TLC certifies holds for all real points of the box |v|<=1000.")
add("C01",
    "The obligation of C01 is a TLA+ definition (Contracts!ComposeSoundAt / ComposeSoundClauses: result assumptions and both components honouring their contracts imply both operand assumptions and the result guarantees, by case split over which assumption row is broken). Every recorded compose_tactics call of the real library (9 wiring schemas, kept variables, simplify, tactic orders) is one trace event that TLC judges with exact Farkas certificates per (case, conclusion row), or refutes by evaluating the whole formula at a witness point.",
    _OPS_NOTE, "TLC trace validation against Contracts.tla; per-case Farkas certificates / witness evaluation in integer arithmetic", "DESIGN.md 4, 6/C01")
add("C02",
    "Contracts!QuotientSoundClauses: dividend assumptions plus divisor and quotient honouring their contracts imply divisor assumptions, quotient assumptions and dividend guarantees. Dividends are built by composing the divisor with a hidden partner (so a quotient exists) or are unrelated; all additional_inputs shapes, flags and tactic orders; judged by TLC as for C01.",
    _OPS_NOTE, "TLC trace validation against Contracts.tla; per-case Farkas certificates / witness evaluation", "DESIGN.md 6/C02")
add("C08",
    "Contracts!ExactClauses: result assumptions <=> A1/\\A2 and (result a/\\g) <=> (A1/\\A2/\\G1/\\G2), each direction row by row, certified by TLC for every recorded merge (shared inputs, shared outputs, same interface, disjoint, clashing; planted duplicated/scaled/weakened rows; both operand orders).",
    _OPS_NOTE, "TLC trace validation against Contracts.tla; Farkas certificates both directions", "DESIGN.md 6/C08")
add("C15",
    "Contracts!KeepsClauses (every operand guarantee row over the result's interface is implied by result a/\\g) and ExactClauses for unconnected compositions, judged by TLC on recorded compose (both call orders, simplify on/off, kept variables) and merge calls whose operands overlap on interface-level guarantees.",
    _OPS_NOTE, "TLC trace validation against Contracts.tla; Farkas certificates / witness evaluation", "DESIGN.md 6/C15")
add("C16",
    "TLC computes the substituted contract itself (Contracts!Renamed: coefficient addition on integer rows, RenameSet on the interface) and demands semantic equality with the recorded result of rename_variable (assumptions <=>, a/\\g <=>), equal interface sets, IncompatibleArgsError exactly for an input/output clash, identity for absent source or equal names.",
    _OPS_NOTE, "TLC trace validation: spec-computed expected result vs recorded result, equivalence by Farkas certificates", "DESIGN.md 6/C16")
add("C05",
    "spec/Algebra.tla models compose_tactics, quotient_tactics, merge and the constructor statement by statement over uninterpreted predicates [tag, vars]; every primitive call has every outcome its documented contract allows (clean result, leftovers, both, nothing, ValueError; refines true/false) and leaves a Horn axiom. TLC explores the model exhaustively and decides the obligations of C01/C02/C08 by Horn forward chaining, which is complete for ALL predicate contents (single-world reduction). Binding: the real IoContract is driven over a scripted symbolic TermList; every outcome path on generated topologies is recorded and TLC (TraceAlgebra.tla) (a) decides the obligation from the log alone and (b) checks the path is a behaviour of the model with identical terminal state.",
    "Bounded only syntactically: 2-3 variables, <= 1 assumption and <= 2 guarantee terms per operand, reduced outcome shapes (monotonicity argument, DESIGN 3.3). Trusted: TLC, the 150-line symbolic driver (symdrv.py). The primitive contracts are those of the abstract-method docstrings.",
    "TLC exhaustive model checking of Algebra.tla + TLC trace validation of every outcome path of the real algebra code over a symbolic constraint domain", "DESIGN.md 3.3, 6/C05")
add("C06",
    "spec/Itf.tla: for every role assignment of 4 (thorough: 5) variables TLC checks that the list algebra of the code equals the worded prescription, is duplicate free and well formed for meaningful requests. Binding: (a) symbolic contents -- every outcome path of the real compose/quotient/merge, the constructor with planted duplicates/overlaps/stray variables, refines across interfaces, copy and rename, judged by TraceAlgebra!OblJudge/ItfJudge (prescribed interface, well-formedness, IncompatibleArgsError exactly for meaningless requests, operands intact); (b) polyhedral contents -- group itf of TraceOps.tla on the C01/C02/C08/C16 generators.",
    "Interfaces are compared as sets (list order is free), duplicates as sequences. Where the code legitimately raises for another documented reason first (ValueError from an unsatisfiable system, IncompatibleArgsError for variables that cannot be eliminated) the event is accepted.",
    "TLC exhaustive check of the interface algebra + TLC trace validation of recorded operations (symbolic and polyhedral contents)", "DESIGN.md 3.2, 6/C06")
_LP_NOTE = ("Trusted: TLC's evaluation of Poly.tla/LP.tla and the projection of inputs (exact: generated data are small integers / dyadic rationals). "
            "Hints (z3) are untrusted: the true answer of each query is ESTABLISHED by TLC from an exact box-free Farkas certificate, a witness point or a "
            "recession ray, or the event is unjudged. Inputs bounded: <= 6 rows, <= 5 variables, coefficients -3..3.")
add("C03",
    "LP!ListTruth / ContractTruth define the true answer of refinement from certificates (exact box-free Farkas for every right row => True; a point of the left side breaking a right row by more than tol => False; otherwise open). 15 generator families carry their ground truth by construction; every recorded refines / <= / contains_environment / contains_implementation call is judged by TLC; different interfaces must raise IncompatibleArgsError.",
    _LP_NOTE, "TLC trace validation against LP.tla; ground truth by certificate checking", "DESIGN.md 6/C03")
add("C07",
    "LP!SimplifyJudge: selection (every result row is an input row), equivalence (context /\\ result => every input row, certificate), irredundancy (for every kept row a point of context /\\ others where it is not implied with margin; a box-free margin certificate is the violation), ValueError only with a box-free infeasibility certificate (a feasible point is the violation); through TermList.simplify with/without context and contract construction.",
    _LP_NOTE, "TLC trace validation against LP.tla; Farkas / margin / infeasibility certificates and witness points", "DESIGN.md 6/C07")
add("C11",
    "Membership is decided by TLC's own integer arithmetic on dyadic behaviours placed on / inside / outside every boundary (LP!ContainsJudge, incl. unassigned variables); emptiness truth from a box-free Farkas certificate or a feasible point (LP!EmptyTruth); membership-vs-refinement consistency on recorded values.",
    _LP_NOTE, "TLC trace validation against LP.tla; exact evaluation and certificate checking", "DESIGN.md 6/C11")
add("C12",
    "LP!OptTruth: optimal (feasible primal point attaining v and an exact box-free dual certificate that obj.x <= v), unbounded (feasible point and recession ray with positive objective) or infeasible (Farkas), each checked by TLC; the recorded answer of optimize / get_variable_bounds / TermList.optimize must be the value within 1e-6 relative, None, or ValueError accordingly.",
    _LP_NOTE, "TLC trace validation against LP.tla; optimality / unboundedness / infeasibility certificates", "DESIGN.md 6/C12")
add("C13",
    "spec/Session.tla is pacti as a state machine: a pool of values and one action per public operation (18 operations with their typing); TLC enumerates all well-typed histories of length 2 and, with -simulate, emits random histories of length 24 whose results are fed back into the pool. Each history is replayed into the real library; every step records deep snapshots of all pool members, argument lists and module-level state before and after, the snapshots after the result has been scrambled in place, and the result of re-executing the step in a pristine forked interpreter. spec/TraceSession.tla (state = the history seen so far) judges OperandsUnchanged, NoAliasing, FreshAgrees and, across the session, that equal calls give equal results.",
    "Snapshots are canonical deep JSON (variables of a term sorted by name, floats by repr); plain constructors are containers, not operations; IoContract.simplify() (in-place by design) is not part of the alphabet. Trusted: sessdrv.py (snapshot / scramble / pristine replay) and TLC.",
    "TLC-generated histories (Session.tla, -simulate) replayed into the library; TLC trace validation of per-step observation records against the purity laws", "DESIGN.md 3.9, 6/C13")
