add("C04",
    "TLA+ contract of elimination (Elim.tla over Poly.tla) validated by TLC against every recorded call of the real elim_vars_by_refining/relaxing: TLC checks exact Farkas certificates (implication holds for all real points of the box) or confirms a witness point in integer arithmetic, and sweeps its own integer grid; cases are generated per tactic order, both directions, simplify on/off.",
    "Trusted: TLC's evaluation of Poly.tla, the 60-line projection rows.py (snapping audited: deviation <= 1e-9 relative, transfer error < 5% of tolerance else unjudged). Hints (z3) are untrusted. Inputs bounded: <= 6 variables, small integer/dyadic coefficients.",
    "TLC trace validation of recorded calls against a TLA+ contract, certificate/witness checking in exact integer arithmetic",
    "DESIGN.md 4, 6/C04")
