"""Untrusted hints for TLC: Farkas certificates and witness points, computed with z3's exact
rational arithmetic.  Nothing here bears a verdict: TLC re-checks every hint (Poly.tla) and the
harness only pre-computes magnitudes so that TLC's 32-bit arithmetic cannot overflow.
"""
from __future__ import annotations

import math
from fractions import Fraction as F

import z3

from rows import BOX, INT_MAX, box_rows, neg_row, rows_vars, row_vars

NONE = {"kind": "none", "mu": 1, "lam": {}, "d": 1, "q": {}, "w": {}}
STATS = {"cert_exact": 0, "cert_tol": 0, "witness": 0, "none": 0, "overflow": 0, "z3_calls": 0}


def _frac(v):
    return F(v.numerator_as_long(), v.denominator_as_long())


def _lcm(vals):
    m = 1
    for v in vals:
        m = m * v.denominator // math.gcd(m, v.denominator)
    return m


def names_for(*rowlists, extra=()):
    s = set(extra)
    for rl in rowlists:
        s |= rows_vars(rl)
    return sorted(s)


# ------------------------------------------------------------------ certificates
def _solve_lambda(allrows, names, tco, bound):
    """lambda >= 0, lambda^T A = tco, lambda . b <= bound  (bound a Fraction). Returns list of Fractions or None."""
    STATS["z3_calls"] += 1
    lam = [z3.Real("l%d" % i) for i in range(len(allrows))]
    s = z3.Solver()
    for l in lam:
        s.add(l >= 0)
    for n in names:
        terms = [lam[i] * r["co"][n] for i, r in enumerate(allrows) if r["co"].get(n, 0) != 0]
        s.add((z3.Sum(terms) if terms else z3.RealVal(0)) == tco.get(n, 0))
    terms = [lam[i] * r["c"] for i, r in enumerate(allrows) if r["c"] != 0]
    s.add((z3.Sum(terms) if terms else z3.RealVal(0)) <= z3.Q(bound.numerator, bound.denominator))
    if s.check() != z3.sat:
        return None
    m = s.model()
    return [_frac(m.eval(l, model_completion=True)) for l in lam]


def farkas_fits(allrows, names, t, mu, lam_int):
    """Mirror of Poly!FarkasOK's arithmetic with unbounded ints: True iff no intermediate exceeds 32 bits."""
    big = 0
    for n in names:
        acc = sum(abs(lam_int[i] * allrows[i]["co"].get(n, 0)) for i in lam_int)
        big = max(big, acc, abs(mu * t["co"].get(n, 0)))
    accb = sum(abs(lam_int[i] * allrows[i]["c"]) for i in lam_int)
    bound = sum(lam_int[i] * allrows[i]["c"] for i in lam_int)
    slack = bound - mu * t["c"]
    big = max(big, accb, abs(mu * t["c"]), abs(slack))
    if slack > 0:
        big = max(big, slack * 100000, 9 * mu * (t["k"] + abs(t["c"])))
    return big <= INT_MAX


def cert(hyp, names, t, exact_only=False, box=True, margin=False):
    """Certificate that hyp /\\ box => t (within 0.9 tol; exactly if exact_only; with a margin of
    tol if margin), or None.  box=False: the certificate may not use the box rows."""
    allrows = hyp + (box_rows(names) if box else [])
    tol = F(t["k"] + abs(t["c"]), 10000)
    tries = [("cert_exact", F(t["c"]))]
    if margin:
        tries = [("cert_exact", F(t["c"]) - tol)]
    elif not exact_only:
        tries.append(("cert_tol", F(t["c"]) + tol * F(9, 10)))
    for which, bound in tries:
        L = _solve_lambda(allrows, names, t["co"], bound)
        if L is None:
            continue
        mu = _lcm(L)
        lam_int = {i: int(L[i] * mu) for i in range(len(L)) if L[i] != 0}
        if not farkas_fits(allrows, names, t, mu, lam_int):
            STATS["overflow"] += 1
            return None
        STATS[which] += 1
        return {
            "kind": "cert",
            "mu": mu,
            "lam": {str(i + 1): v for i, v in lam_int.items()},
            "d": 1,
            "q": {},
            "_lam_sum": float(sum(L)),
            "_L": L,
        }
    return None


def infeas_cert(hyp, names, box=False):
    """Farkas certificate that hyp (/\\ box) is infeasible, or None."""
    allrows = hyp + (box_rows(names) if box else [])
    if not allrows:
        return None
    L = _solve_lambda(allrows, names, {}, F(-1))
    if L is None:
        return None
    mu = _lcm(L)
    lam_int = {i: int(L[i] * mu) for i in range(len(L)) if L[i] != 0}
    zero = {"co": {}, "c": 0, "k": 1}
    if not farkas_fits(allrows, names, zero, 1, lam_int):
        STATS["overflow"] += 1
        # the solver is free to use rows of large magnitude whose products do not fit 32 bits: ask again with the small rows only
        small = [i for i, r in enumerate(allrows) if max([abs(r["c"]), r["k"]] + [abs(a) for a in r["co"].values()]) <= 10000]
        if 0 < len(small) < len(allrows):
            L2 = _solve_lambda([allrows[i] for i in small], names, {}, F(-1))
            if L2 is not None:
                mu2 = _lcm(L2)
                lam2 = {small[i]: int(L2[i] * mu2) for i in range(len(L2)) if L2[i] != 0}
                if farkas_fits(allrows, names, zero, 1, lam2):
                    return {"kind": "infeasible", "mu": 1, "lam": {str(i + 1): v for i, v in lam2.items()}, "d": 1, "q": {}}
        return None
    return {"kind": "infeasible", "mu": 1, "lam": {str(i + 1): v for i, v in lam_int.items()}, "d": 1, "q": {}}


def feasible_point(hyp, names):
    """A point of hyp inside the box with small denominator (hint kind 'witness'), or None."""
    for M, d in _SCHEDULE:
        STATS["z3_calls"] += 1
        s = z3.Solver()
        X = {n: z3.Int(n) for n in names}
        for n in names:
            s.add(X[n] <= M * d, X[n] >= -M * d)
        for r in hyp:
            s.add(_holds(r, X, d))
        if s.check() == z3.sat:
            m = s.model()
            q = {n: m.eval(X[n], model_completion=True).as_long() for n in names}
            if witness_fits(hyp, {"co": {}, "c": 0, "k": 1}, q, d):
                return {"kind": "witness", "mu": 1, "lam": {}, "d": d, "q": q}
    return None


def not_implied_witness(hyp, names, t):
    """A point of hyp where t is NOT satisfied with a margin of tol: excess > -tol."""
    for M, d in _SCHEDULE:
        STATS["z3_calls"] += 1
        s = z3.Solver()
        X = {n: z3.Int(n) for n in names}
        for n in names:
            s.add(X[n] <= M * d, X[n] >= -M * d)
        for r in hyp:
            s.add(_holds(r, X, d))
        s.add((_lin(t["co"], X) - t["c"] * d) * 10000 + (t["k"] + abs(t["c"])) * d > 0)
        if s.check() == z3.sat:
            m = s.model()
            q = {n: m.eval(X[n], model_completion=True).as_long() for n in names}
            if witness_fits(hyp, t, q, d):
                return {"kind": "witness", "mu": 1, "lam": {}, "d": d, "q": q}
    return None


def opt_hint(rows, obj, names):
    """Hint for max obj.x over rows: optimal (primal point, value, exact box-free dual), unbounded
    (point and recession ray) or infeasible (Farkas)."""
    base = {"kind": "none", "mu": 1, "lam": {}, "d": 1, "q": {}, "vn": 0, "vd": 1, "ray": {}}
    ic = infeas_cert(rows, names, box=False)
    if ic is not None:
        base.update(ic)
        base["kind"] = "infeasible"
        return base
    pt = feasible_point(rows, names)
    if pt is None:
        return base
    # recession ray with positive objective
    STATS["z3_calls"] += 1
    s = z3.Solver()
    Rr = {n: z3.Int("r_" + n) for n in names}
    for n in names:
        s.add(Rr[n] <= 50, Rr[n] >= -50)
    for r in rows:
        s.add(_lin(r["co"], Rr) <= 0)
    s.add(_lin(obj, Rr) >= 1)
    if s.check() == z3.sat:
        m = s.model()
        base.update(kind="unbounded", q=pt["q"], d=pt["d"], ray={n: m.eval(Rr[n], model_completion=True).as_long() for n in names})
        return base
    # optimum: exact LP
    STATS["z3_calls"] += 1
    o = z3.Optimize()
    X = {n: z3.Real(n) for n in names}
    for r in rows:
        terms = [a * X[v] for v, a in r["co"].items() if a != 0]
        o.add((z3.Sum(terms) if terms else z3.RealVal(0)) <= r["c"])
    terms = [a * X[v] for v, a in obj.items() if a != 0]
    hnd = o.maximize(z3.Sum(terms) if terms else z3.RealVal(0))
    if o.check() != z3.sat:
        return base
    m = o.model()
    P = {n: _frac(m.eval(X[n], model_completion=True)) for n in names}
    val = sum(F(a) * P[v] for v, a in obj.items())
    d = _lcm(list(P.values()) or [F(1)])
    q = {n: int(P[n] * d) for n in names}
    vn, vd = val.numerator, val.denominator
    t = {"co": {v: a * vd for v, a in obj.items()}, "c": vn, "k": vd}
    c = cert(rows, names, t, exact_only=True, box=False)
    if c is None or not holds_fits(rows + [t], q, d):       # the optimum certificate evaluates rows exactly, without tolerance arithmetic
        return base
    base.update(kind="optimal", q=q, d=d, vn=vn, vd=vd, mu=c["mu"], lam=c["lam"])
    return base


# ------------------------------------------------------------------ witnesses
_SCHEDULE = [(5, 1), (5, 2), (50, 1), (50, 2), (50, 3), (50, 4), (BOX, 1), (BOX, 2), (BOX, 3), (BOX, 4), (BOX, 6), (BOX, 12)]


def _lin(co, X):
    terms = [a * X[v] for v, a in co.items() if a != 0]
    return z3.Sum(terms) if terms else z3.IntVal(0)


def holds_fits(rows_all, q, d):
    """magnitude pre-check for evaluating  row.q <= c*d  (no tolerance arithmetic) in TLC's integers"""
    for r in rows_all:
        acc = sum(abs(a * q.get(v, 0)) for v, a in r["co"].items())
        if max(acc, abs(r["c"] * d)) > INT_MAX:
            return False
    return True


def witness_fits(rows_all, t, q, d):
    big = 0
    for r in rows_all + [t]:
        acc = sum(abs(a * q.get(v, 0)) for v, a in r["co"].items())
        big = max(big, acc, abs(r["c"] * d), acc + abs(r["c"] * d))
    e = sum(a * q.get(v, 0) for v, a in t["co"].items()) - t["c"] * d
    big = max(big, abs(e) * 10000, (t["k"] + abs(t["c"])) * d)
    for r in rows_all:
        e2 = sum(a * q.get(v, 0) for v, a in r["co"].items()) - r["c"] * d
        big = max(big, abs(e2) * 1000, r["k"] * d)
    return big <= INT_MAX


def _broken(t, X, d):
    # excess*10000 > (k+|c|)*d
    return (_lin(t["co"], X) - t["c"] * d) * 10000 > (t["k"] + abs(t["c"])) * d


def _holds(r, X, d):
    return _lin(r["co"], X) <= r["c"] * d


def _clearly_broken(r, X, d):
    return (_lin(r["co"], X) - r["c"] * d) * 1000 >= r["k"] * d


def guarded_witness(base, comps, names, t):
    """Point in the box where base holds, every component is satisfied (assumption clearly broken
    or all guarantees hold) and t is broken by more than tol.  comps = [{'a': rows, 'g': rows}]."""
    allrows = base + [r for c in comps for r in c["a"] + c["g"]]
    for M, d in _SCHEDULE:
        STATS["z3_calls"] += 1
        s = z3.Solver()
        X = {n: z3.Int(n) for n in names}
        for n in names:
            s.add(X[n] <= M * d, X[n] >= -M * d)
        for r in base:
            s.add(_holds(r, X, d))
        for c in comps:
            alt = [_clearly_broken(r, X, d) for r in c["a"]]
            alt.append(z3.And([_holds(r, X, d) for r in c["g"]]) if c["g"] else z3.BoolVal(True))
            s.add(z3.Or(alt))
        s.add(_broken(t, X, d))
        if s.check() == z3.sat:
            m = s.model()
            q = {n: m.eval(X[n], model_completion=True).as_long() for n in names}
            if witness_fits(allrows, t, q, d):
                STATS["witness"] += 1
                return {"kind": "witness", "mu": 1, "lam": {}, "d": d, "q": q}
    return None


def witness2(hyp, names, t):
    """Two-scale witness  p0 + w/D  for thin wedges far from the origin (see Poly!WitnessOK2): exact
    rational point maximising the margin, then split into an integer part and a remainder on a 1/D grid;
    every inequality is re-checked exactly, with the same floor-division arithmetic TLC uses."""
    STATS["z3_calls"] += 1
    o = z3.Optimize()
    X = {n: z3.Real(n) for n in names}
    m = z3.Real("margin")
    for n in names:
        o.add(X[n] <= BOX - 2, X[n] >= -(BOX - 2))

    def lin(co):
        terms = [a * X[v] for v, a in co.items() if a != 0]
        return z3.Sum(terms) if terms else z3.RealVal(0)

    for r in hyp:
        o.add(lin(r["co"]) + m * max(1, sum(abs(a) for a in r["co"].values())) <= r["c"])
    tol = F(t["k"] + abs(t["c"]), 10000)
    o.add(lin(t["co"]) - t["c"] >= z3.Q(tol.numerator, tol.denominator) + m * max(1, sum(abs(a) for a in t["co"].values())))
    o.add(m >= 0)
    o.maximize(m)
    if o.check() != z3.sat:
        return None
    mod = o.model()
    P = {n: _frac(mod.eval(X[n], model_completion=True)) for n in names}
    for D in (1000, 2000, 500, 1500):
        p0 = {n: int(round(P[n])) for n in names}
        w = {n: int(round((P[n] - p0[n]) * D)) for n in names}

        def dot(r, vec):
            return sum(a * vec.get(v, 0) for v, a in r["co"].items())

        ok = all(abs(p0[n]) <= BOX - 1 and abs(w[n]) <= D for n in names)
        big = 0
        for r in hyp + [t]:
            big = max(big, sum(abs(a * p0.get(v, 0)) for v, a in r["co"].items()) + abs(r["c"]), sum(abs(a * w.get(v, 0)) for v, a in r["co"].items()))
        ok = ok and big <= INT_MAX
        if not ok:
            continue
        if not all(dot(r, p0) - r["c"] <= (-dot(r, w)) // D for r in hyp):
            continue
        E, W = dot(t, p0) - t["c"], dot(t, w)
        if abs(E) <= 200000 and abs(W) <= 200000 and 10000 * E - (t["k"] + abs(t["c"])) > (-(10000 * W)) // D:
            STATS["witness"] += 1
            return {"kind": "witness2", "mu": 1, "lam": {}, "d": D, "q": p0, "w": w}
    return None


def witness3(hyp, names, t):
    """Exact rational vertex: the point of the box where hyp holds and t is exceeded the most, on the grid 1/D given by
    its own denominators (data with coefficients like 2^-20 put the interesting points there); kept only if every product
    TLC will form fits its integers."""
    STATS["z3_calls"] += 1
    o = z3.Optimize()
    X = {n: z3.Real(n) for n in names}
    for n in names:
        o.add(X[n] <= BOX, X[n] >= -BOX)

    def lin(co):
        terms = [a * X[v] for v, a in co.items() if a != 0]
        return z3.Sum(terms) if terms else z3.RealVal(0)

    for r in hyp:
        o.add(lin(r["co"]) <= r["c"])
    o.maximize(lin(t["co"]))
    if o.check() != z3.sat:
        return None
    mod = o.model()
    P = {n: _frac(mod.eval(X[n], model_completion=True)) for n in names}
    d = _lcm(list(P.values()) or [F(1)])
    if d > 4 * 10**6:
        return None
    q = {n: int(P[n] * d) for n in names}
    e = sum(a * q[v] for v, a in t["co"].items()) - t["c"] * d
    if e * 10000 <= (t["k"] + abs(t["c"])) * d or not witness_fits(hyp, t, q, d):
        return None
    STATS["witness"] += 1
    return {"kind": "witness", "mu": 1, "lam": {}, "d": d, "q": q}


def witness(hyp, names, t):
    return guarded_witness(hyp, [], names, t) or witness2(hyp, names, t) or witness3(hyp, names, t)


# ------------------------------------------------------------------ decisions (hint only)
def strip(h):
    return {k: v for k, v in h.items() if not k.startswith("_")}


def hint_plain(hyp, names, t):
    """Hint for  hyp /\\ box => t."""
    h = cert(hyp, names, t)
    if h is not None:
        return h
    w = witness(hyp, names, t)
    if w is not None:
        return w
    STATS["none"] += 1
    return dict(NONE)


def all_cases(comps):
    cs = [()]
    for c in comps:
        cs = [x + (j,) for x in cs for j in range(len(c["a"]) + 1)]
    return cs


def flat_case(comps, cs):
    out = []
    for c, j in zip(comps, cs):
        if j == 0:
            out += c["a"] + c["g"]
        else:
            out.append(neg_row(c["a"][j - 1]))
    return out


def case_key(cs):
    return ".".join(str(j) for j in cs) if cs else "-"


def flat_case_skip(comps, cs, skip):
    out = []
    for i, (c, j) in enumerate(zip(comps, cs)):
        if i == skip:
            continue
        if j == 0:
            out += c["a"] + c["g"]
        else:
            out.append(neg_row(c["a"][j - 1]))
    return out


def empty_case(base, comps, names, cs, cache):
    """Exact certificate that the strict case is empty: the other hypotheses imply the broken row."""
    key = tuple(cs)
    if cache is not None and key in cache:
        return cache[key]
    out = None
    for i, j in enumerate(cs):
        if j == 0:
            continue
        h = cert(base + flat_case_skip(comps, cs, i), names, comps[i]["a"][j - 1], exact_only=True)
        if h is not None:
            h["kind"] = "empty"
            h["d"] = i + 1
            out = h
            break
    if cache is not None:
        cache[key] = out
    return out


def hint_guarded(base, comps, names, t, cache=None):
    """Hint for  base /\\ AND (A_i => G_i) /\\ box => t : one certificate per case, else a witness."""
    cases = {}
    missing = False
    for cs in all_cases(comps):
        h = None
        if cache is not None and cache.get(tuple(cs)) is not None:
            h = cache[tuple(cs)]
        if h is None:
            h = cert(base + flat_case(comps, cs), names, t)
        if h is None:
            h = empty_case(base, comps, names, cs, cache)
        if h is None:
            missing = True
            break
        cases[case_key(cs)] = h
    if not missing:
        return {"wit": dict(NONE), "cases": cases}
    w = guarded_witness(base, comps, names, t)
    if w is not None:
        return {"wit": w, "cases": {}}
    STATS["none"] += 1
    return {"wit": dict(NONE), "cases": {}}


def strip_guarded(h):
    return {"wit": strip(h["wit"]), "cases": {k: strip(v) for k, v in h["cases"].items()}}


def hint_kind(h):
    if "wit" in h:
        if h["wit"]["kind"] == "witness":
            return "witness"
        return "cert" if h["cases"] and all(v["kind"] in ("cert", "empty") for v in h["cases"].values()) else "none"
    return h["kind"]


# ------------------------------------------------------------------ exact re-confirmation
def confirm_witness_exact(hyp_exact, t_exact, q, d, devs=None, dev_t=0):
    """Evaluate on the UNSNAPPED rows (Fractions): every hyp row holds at q/d and t is broken by
    more than 1e-4*(1+|c|).  hyp_exact/t_exact: (co dict var->Fraction, const Fraction).
    A row produced by the library may differ from its snapped image by its audited deviation
    (<= 1e-9 relative, five orders below the tolerance); that much is granted on each side."""
    pt = {v: F(x, d) for v, x in q.items()}

    def lhs(co):
        return sum(a * pt.get(v, 0) for v, a in co.items())

    for i, (co, c) in enumerate(hyp_exact):
        if lhs(co) - c > (devs[i] if devs else 0):
            return False
    co, c = t_exact
    return lhs(co) - c > F(1, 10000) * (1 + abs(c)) - dev_t
