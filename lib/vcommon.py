"""Shared plumbing for the pacti verification checks: environment, paths, seeds,
evidence files, known findings, violation reporting.

Every harness process imports this module first: it forces the pacti under test to be
$VERIF_REPO/src (default /repo/src) -- /venv/site-packages holds a *different* pacti build
(DESIGN F1) -- and refuses to run (exit 2) otherwise.
"""
from __future__ import annotations

import hashlib
import json
import os
import shutil
import sys
import time

VERIF = os.path.dirname(os.path.dirname(os.path.abspath(__file__)))
REPO = os.environ.get("VERIF_REPO", "/repo")
SRC = os.path.join(REPO, "src")
SPEC = os.path.join(VERIF, "spec")
OUT = os.path.join(VERIF, "out")
EVID = os.environ.get("VERIF_EVIDENCE_DIR") or os.path.join(VERIF, "evidence")   # scratch-tree experiments write elsewhere
KNOWN = os.path.join(VERIF, "known_findings.json")
NPROC = int(os.environ.get("VERIF_NPROC", str(os.cpu_count() or 4)))


def die(msg: str, code: int = 2):
    print("MACHINERY-FAILURE: " + msg, flush=True)
    sys.exit(code)


def drift_tier(prop, what, fn, default=(0, 0)):
    """Run an algorithm-level conformance tier.  It follows the code's internals (wrappers around private functions); when it
    cannot -- because the code under test changed shape -- that is spec drift to report, never a crashed check."""
    try:
        return fn()
    except Exception as e:  # noqa: BLE001
        print("SPEC-DRIFT property=%s the %s conformance run could not follow the code (%s: %s)" % (prop, what, type(e).__name__, str(e)[:200]), flush=True)
        return default


def bind_pacti():
    """Make `import pacti` resolve to the tree under verification, or exit 2."""
    if sys.path[0] != SRC:
        sys.path.insert(0, SRC)
    os.environ.setdefault("MPLBACKEND", "Agg")
    for k in ("OMP_NUM_THREADS", "OPENBLAS_NUM_THREADS", "MKL_NUM_THREADS"):
        os.environ.setdefault(k, "1")
    import pacti  # noqa

    if not os.path.abspath(pacti.__file__).startswith(os.path.abspath(SRC)):
        die("pacti imported from %s, not from %s" % (pacti.__file__, SRC))
    return pacti


def seed() -> int:
    try:
        return int(os.environ.get("VERIF_SEED", "0"))
    except ValueError:
        return 0


def tier(default="quick") -> str:
    t = os.environ.get("VERIF_TIER", default)
    return t if t in ("quick", "thorough") else default


def run_dir(pid: str) -> str:
    d = os.path.join(OUT, "%s-%d" % (pid, os.getpid()))
    shutil.rmtree(d, ignore_errors=True)
    os.makedirs(d, exist_ok=True)
    return d


def digest(obj) -> str:
    return hashlib.sha256(json.dumps(obj, sort_keys=True, default=str).encode()).hexdigest()[:16]


# ------------------------------------------------------------------ known findings
def load_known():
    try:
        with open(KNOWN) as f:
            return json.load(f)
    except FileNotFoundError:
        return []


def match_known(prop: str, sig: dict):
    """Return the known-finding entry (status == 'known') whose key is a sub-dict of sig."""
    for e in load_known():
        if e.get("property") != prop or e.get("status") != "known":
            continue
        key = e.get("key", {})
        if all(sig.get(k) == v for k, v in key.items()):
            return e
    return None


# ------------------------------------------------------------------ reporting
class Report:
    """Collects violations / known findings / counts for one check run and writes evidence."""

    def __init__(self, prop: str, tier_: str, level: str = "model_checking"):
        self.prop = prop
        self.tier = tier_
        self.level = level
        self.t0 = time.time()
        self.violations = []  # (sig, replay_path)
        self.known_hits = {}
        self.cov = {
            "states": 0,
            "transitions": 0,
            "traces_validated_against_impl": 0,
            "samples": [],
            "evaluations": 0,
            "distinct_nontrivial": 0,
        }
        self.assumptions = []
        self.notes = []
        # replay files of an earlier run of this check are stale
        vdir = os.path.join(OUT, "violations")
        if os.path.isdir(vdir):
            for fn in os.listdir(vdir):
                if fn.startswith(prop + "-"):
                    os.remove(os.path.join(vdir, fn))

    def add_tlc(self, stats: dict):
        self.cov["states"] += int(stats.get("distinct", 0))
        self.cov["transitions"] += int(stats.get("generated", 0))
        self.cov.setdefault("tlc_runs", []).append(stats)

    def sample(self, obj, cap=3):
        if len(self.cov["samples"]) < cap:
            self.cov["samples"].append(obj)

    def violation(self, sig: dict, case: dict):
        """Record a TLC-confirmed violation; known findings are downgraded."""
        k = match_known(self.prop, sig)
        if k is not None:
            d = k.get("description", "")
            self.known_hits[d] = self.known_hits.get(d, 0) + 1
            return False
        vdir = os.path.join(OUT, "violations")
        os.makedirs(vdir, exist_ok=True)
        self.n_viol = getattr(self, "n_viol", 0) + 1
        if len({p for _, p in self.violations}) >= 25:
            return True  # enough replay files; the count is still reported
        path = os.path.join(vdir, "%s-%s.json" % (self.prop, digest(case)))
        with open(path, "w") as f:
            json.dump({"property": self.prop, "signature": sig, "case": case}, f, indent=1, default=str)
        self.violations.append((sig, path))
        return True

    def finish(self, extra_cov: dict | None = None) -> int:
        if extra_cov:
            self.cov.update(extra_cov)
        for d, n in sorted(self.known_hits.items()):
            print("KNOWN-FINDING: property=%s %s (seen %d times)" % (self.prop, d, n), flush=True)
        seen = set()
        for sig, path in self.violations:
            if path in seen:
                continue
            seen.add(path)
            print("VIOLATION property=%s replay=%s" % (self.prop, path), flush=True)
            print("  signature: %s" % json.dumps(sig, sort_keys=True), flush=True)
        if not self.cov["samples"]:
            self.cov["samples"].append({"note": "no case recorded"})
        if self.cov["states"] < 1:
            self.cov["states"] = max(1, self.cov["states"])
        if self.cov["transitions"] < 1:
            self.cov["transitions"] = max(1, self.cov["transitions"])
        ev = {
            "property_id": self.prop,
            "tier": self.tier,
            "seed": seed(),
            "level": self.level,
            "coverage": self.cov,
            "assumptions": self.assumptions,
            "wall_s": round(time.time() - self.t0, 2),
            "violations": max(len(seen), getattr(self, "n_viol", 0)),
            "known_findings_seen": self.known_hits,
            "notes": self.notes,
        }
        os.makedirs(EVID, exist_ok=True)
        tmp = os.path.join(EVID, "%s.json.tmp" % self.prop)
        with open(tmp, "w") as f:
            json.dump(ev, f, indent=1, default=str)
        os.replace(tmp, os.path.join(EVID, "%s.json" % self.prop))
        print(
            "RESULT property=%s tier=%s seed=%d violations=%d known=%d states=%d traces=%d wall=%.1fs"
            % (
                self.prop,
                self.tier,
                seed(),
                len(seen),
                sum(self.known_hits.values()),
                self.cov["states"],
                self.cov["traces_validated_against_impl"],
                time.time() - self.t0,
            ),
            flush=True,
        )
        return 1 if seen else 0
