"""Conformance of the context-reduction step shared by tactics 1 and 5 with spec/ContextReduction.tla: TLC checks Laws (no
eliminated variable left; equal slack wherever the chosen rows hold with equality; the certificate identity) on every state of a
small universe, refutes a wrong variant, and in generator mode prints every (term, variables, chosen rows) with the reduced
term; the real _context_reduction is called on every state with the ROW SELECTION replaced by the generated rows (so that
solve_for_variables -- the sympy bridge -- and the substitution are what is exercised) and the result is compared as exact
rationals.  Mismatches are SPEC-DRIFT lines."""
from __future__ import annotations

import json
import re
from fractions import Fraction as F

from tlcrun import require_clean, run_tlc, stats_of
from vcommon import die

NAMES = {"1": "x", "2": "y", "3": "z"}


def conformance(rep, rd, prop, tier="quick"):
    for cfg, must in (("ContextReduction.cfg", None), ("ContextReduction_wrong1.cfg", "Laws")):
        res = run_tlc("ContextReduction", cfg, rd, timeout=3000, gc="parallel")
        st = stats_of(res)
        st["invariants_violated"] = res["invariant_violated"]
        if must:
            if must not in str(res["invariant_violated"]):
                die("ContextReduction/%s: expected TLC to refute %s (wrong variant), got %r" % (cfg, must, res["invariant_violated"]))
            st["expected_violation"] = must
            rep.add_tlc(st)
            continue
        require_clean(res, "ContextReduction/" + cfg)
        rep.add_tlc(st)
        if res["invariant_violated"]:
            print("SPEC-DRIFT property=%s design-level invariant %s violated in ContextReduction.tla" % (prop, res["invariant_violated"]), flush=True)
    res = run_tlc("ContextReduction", "ContextReduction_gen.cfg", rd, workers=1, timeout=3000)
    require_clean(res, "ContextReduction_gen")
    rep.add_tlc(stats_of(res))
    cases, seen = [], set()
    for m in re.finditer(r'<<"CASE", "(.*?)">>\s*$', res["out"], re.M):
        if m.group(1) not in seen:
            seen.add(m.group(1))
            cases.append(json.loads(m.group(1).encode().decode("unicode_escape")))
    if len(cases) < 22000:
        die("ContextReduction.tla emitted only %d states" % len(cases))
    n_all = len(cases)
    if tier == "quick":
        cases = cases[::5]          # sympy makes a replay cost ~5 ms: every fifth state in the quick tier, all of them in the thorough one
    import family

    whys = family.pmap(_check, cases, chunksize=64)
    drift = 0
    for cs, why in zip(cases, whys):
        if why:
            drift += 1
            if drift <= 3:
                print("SPEC-DRIFT property=%s context reduction differs from ContextReduction.tla for term=%s eliminate=%s rows=%s: %s" %
                      (prop, json.dumps(cs["t"]), cs["f"], json.dumps(cs["rows"]), why), flush=True)
    rep.cov["context_reduction_conformance"] = {"states_enumerated_by_tlc": n_all, "states_replayed": len(cases), "spec_drift": drift}
    rep.cov["traces_validated_against_impl"] = rep.cov.get("traces_validated_against_impl", 0) + len(cases)
    return len(cases), drift


def _as_list(fn_json):
    """TLC prints a function over 1..n as a list and a function over another finite set as an object"""
    return fn_json if isinstance(fn_json, dict) else {str(i + 1): v for i, v in enumerate(fn_json)}


def _check(cs):
    from pacti.iocontract import Var
    from pacti.terms.polyhedra import PolyhedralTerm, PolyhedralTermList

    def term(f):
        co = _as_list(f["co"])
        return PolyhedralTerm({Var(NAMES[k]): c for k, c in co.items()}, f["c"])

    t = term(cs["t"])
    rows = [term(r) for r in cs["rows"]]
    fvars = [Var(NAMES[str(v)]) for v in cs["f"]]
    T = PolyhedralTermList
    orig = T.__dict__["_get_tlp_context"]
    T._get_tlp_context = staticmethod(lambda term_, context_, elim_, refine_: (list(rows), list(fvars)))
    try:
        before = (str(t), [str(r) for r in rows])
        try:
            res = T._context_reduction(t, PolyhedralTermList(list(rows)), list(fvars), True, 5)
        except Exception as e:  # noqa: BLE001
            return "raised %s: %s" % (type(e).__name__, str(e)[:80])
        want = cs["res"]
        num = _as_list(want["num"])
        exp = {NAMES[k]: F(v, want["den"]) for k, v in num.items() if v != 0}
        got = {v.name: F(float(c)).limit_denominator(4096) for v, c in res.variables.items() if abs(float(c)) > 1e-12}
        if got != exp:
            return "the reduced term has coefficients %s, the specification gives %s" % ({k: str(v) for k, v in got.items()}, {k: str(v) for k, v in exp.items()})
        if F(float(res.constant)).limit_denominator(4096) != F(want["c"], want["den"]):
            return "the reduced term has constant %s, the specification gives %s" % (res.constant, F(want["c"], want["den"]))
        if before != (str(t), [str(r) for r in rows]):
            return "the reduction changed its arguments"
        return None
    finally:
        T._get_tlp_context = orig
