"""Bounded-exhaustive conformance of the term-level arithmetic with spec/TermAlgebra.tla (in the manner of matrixdrv.py): TLC checks
Laws on every (t, e, v, f) of the small universe, refutes the wrong variant (isolate_variable keeps the sign of the constant: D1 of
the pinned tree), and in generator mode prints every state with the results of multiply, +, remove_variable, isolate_variable,
substitute_variable and the sign queries; all 17 496 states are replayed into the real methods, results compared entry for entry
(key order, exact dyadic floats), operands checked intact.  Mismatches are SPEC-DRIFT lines."""
from __future__ import annotations

import json
import re

from tlcrun import require_clean, run_tlc, stats_of
from vcommon import die

NAMES = {1: "x", 2: "y", 3: "z"}


def conformance(rep, rd, prop):
    for cfg, must in (("TermAlgebra.cfg", None), ("TermAlgebra_wrong1.cfg", "Laws")):
        res = run_tlc("TermAlgebra", cfg, rd, timeout=3000, gc="parallel")
        st = stats_of(res)
        st["invariants_violated"] = res["invariant_violated"]
        if must:
            if must not in str(res["invariant_violated"]):
                die("TermAlgebra/%s: expected TLC to refute %s (wrong variant), got %r" % (cfg, must, res["invariant_violated"]))
            st["expected_violation"] = must
            rep.add_tlc(st)
            continue
        require_clean(res, "TermAlgebra/" + cfg)
        rep.add_tlc(st)
        if res["invariant_violated"]:
            print("SPEC-DRIFT property=%s design-level invariant %s violated in TermAlgebra.tla" % (prop, res["invariant_violated"]), flush=True)
    res = run_tlc("TermAlgebra", "TermAlgebra_gen.cfg", rd, workers=1, timeout=3000)
    require_clean(res, "TermAlgebra_gen")
    rep.add_tlc(stats_of(res))
    cases, seen = [], set()
    for m in re.finditer(r'<<"CASE", "(.*?)">>\s*$', res["out"], re.M):
        if m.group(1) not in seen:
            seen.add(m.group(1))
            cases.append(json.loads(m.group(1).encode().decode("unicode_escape")))
    if len(cases) < 17000:
        die("TermAlgebra.tla emitted only %d states" % len(cases))

    from pacti.iocontract import Var
    from pacti.terms.polyhedra import PolyhedralTerm

    def term(t):
        return PolyhedralTerm({Var(NAMES[k]): c / t["den"] for k, c in zip(t["ks"], t["cf"])}, t["c"] / t["den"])

    def shape(t):
        return {"ks": [v.name for v in t.variables], "cf": [float(c) for c in t.variables.values()], "c": float(t.constant)}

    def want(t):
        return {"ks": [NAMES[k] for k in t["ks"]], "cf": [c / t["den"] for c in t["cf"]], "c": t["c"] / t["den"]}

    drift = 0
    for cs in cases:
        t, e, v, f = term(cs["t"]), term(cs["e"]), Var(NAMES[cs["v"]]), cs["f"]
        bt, be = shape(t), shape(e)
        why = None
        try:
            checks = [("multiply", lambda: shape(t.multiply(f)), want(cs["mul"])), ("+", lambda: shape(t + e), want(cs["add"])),
                      ("remove_variable", lambda: shape(t.remove_variable(v)), want(cs["remove"])),
                      ("substitute_variable", lambda: shape(t.substitute_variable(v, e)), want(cs["subst"]))]
            for name, fn, w in checks:
                g = fn()
                if g != w:
                    why = "%s gives %s, the specification gives %s" % (name, g, w)
                    break
            if why is None:
                try:
                    g = {"exc": "none", "r": shape(t.isolate_variable(v))}
                except ValueError:
                    g = {"exc": "ValueError", "r": want(cs["isolate"]["r"])}
                w = {"exc": cs["isolate"]["exc"], "r": want(cs["isolate"]["r"])}
                if g != w:
                    why = "isolate_variable gives %s, the specification gives %s" % (g, w)
            if why is None:
                try:
                    sg = t.get_sign(v)
                    pol = (t.get_polarity(v, True), t.get_polarity(v, False))
                except KeyError:
                    sg, pol = 0, None
                cf = dict(zip(cs["t"]["ks"], cs["t"]["cf"])).get(cs["v"], 0)
                if sg != cs["sign"] or (pol is not None and pol != (cf >= 0, cf <= 0)) or bool(t.contains_var(v)) != (cs["sign"] != 0) or float(t.get_coefficient(v)) != float(cf):
                    why = "sign / polarity / coefficient queries give %s %s, the specification gives sign %s" % (sg, pol, cs["sign"])
            if why is None and (shape(t), shape(e)) != (bt, be):
                why = "a term operation changed its operand"
        except Exception as ex:  # noqa: BLE001
            why = "raised %s: %s" % (type(ex).__name__, ex)
        if why:
            drift += 1
            if drift <= 3:
                print("SPEC-DRIFT property=%s term arithmetic differs from TermAlgebra.tla for t=%s e=%s v=%s f=%s: %s" %
                      (prop, json.dumps(cs["t"]), json.dumps(cs["e"]), cs["v"], cs["f"], why), flush=True)
    rep.cov["term_algebra_conformance"] = {"states_enumerated_by_tlc": len(cases), "replays": 6 * len(cases), "spec_drift": drift}
    rep.cov["traces_validated_against_impl"] = rep.cov.get("traces_validated_against_impl", 0) + len(cases)
    return len(cases), drift
