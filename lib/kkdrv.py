"""Design-level check and conformance of tactic 1's row selection with spec/Kaykobad.tla: TLC checks SOUNDNESS (whenever rows are
selected the system is solvable and the multipliers of the certificate of ContextReduction.tla have the sign the direction needs) on
every state of the universe (136 260 quick; 14.5 M and, for three eliminated variables, 2.2 M thorough), refutes two wrong variants (the
sign test reading one coefficient; the dominance test without the accumulated sums), and three vacuity guards must find a selection for one,
two and three variables; in generator mode every state is printed with the
selection, and the real _get_kaykobad_context is called on all of them.  Mismatches are SPEC-DRIFT lines."""
from __future__ import annotations

import json
import re

from tlcrun import require_clean, run_tlc, stats_of
from vcommon import die

NAMES = {"1": "x", "2": "y", "3": "z", "4": "w"}


def _fn(j):
    return j if isinstance(j, dict) else {str(i + 1): v for i, v in enumerate(j)}


def conformance(rep, rd, prop, tier="quick"):
    runs = [("Kaykobad_quick.cfg", None), ("Kaykobad_wrong1.cfg", "Sound"), ("Kaykobad_wrong2.cfg", "Sound"), ("Kaykobad_vacuity1.cfg", "Found"),
            ("Kaykobad_vacuity2.cfg", "FoundTwo"), ("Kaykobad_vacuity3.cfg", "FoundThree")]
    if tier != "quick":
        runs[1:1] = [("Kaykobad.cfg", None), ("Kaykobad_three.cfg", None)]
    for cfg, must in runs:
        res = run_tlc("Kaykobad", cfg, rd, timeout=3000, gc="parallel", heap="12g")
        st = stats_of(res)
        st["invariants_violated"] = res["invariant_violated"]
        if must:
            if must not in str(res["invariant_violated"]):
                die("Kaykobad/%s: expected TLC to refute %s (wrong variant / vacuity guard), got %r" % (cfg, must, res["invariant_violated"]))
            st["expected_violation"] = must
            rep.add_tlc(st)
            continue
        require_clean(res, "Kaykobad/" + cfg)
        rep.add_tlc(st)
        if res["invariant_violated"]:
            print("SPEC-DRIFT property=%s design-level invariant %s violated in Kaykobad.tla (%s)" % (prop, res["invariant_violated"], cfg), flush=True)
    res = run_tlc("Kaykobad", "Kaykobad_gen.cfg", rd, workers=1, timeout=3000)
    require_clean(res, "Kaykobad_gen")
    rep.add_tlc(stats_of(res))
    cases, seen = [], set()
    for m in re.finditer(r'<<"CASE", "(.*?)">>\s*$', res["out"], re.M):
        if m.group(1) not in seen:
            seen.add(m.group(1))
            cases.append(json.loads(m.group(1).encode().decode("unicode_escape")))
    if len(cases) < 30000:
        die("Kaykobad.tla emitted only %d states" % len(cases))
    if tier != "quick":
        # three eliminated variables (2.2 M states): every successful selection and one in sixteen of the others
        res = run_tlc("Kaykobad", "Kaykobad_gen3.cfg", rd, workers=1, timeout=3000)
        require_clean(res, "Kaykobad_gen3")
        rep.add_tlc(stats_of(res))
        n0 = len(cases)
        for m in re.finditer(r'<<"CASE", "(.*?)">>\s*$', res["out"], re.M):
            if m.group(1) not in seen:
                seen.add(m.group(1))
                cases.append(json.loads(m.group(1).encode().decode("unicode_escape")))
        if len(cases) - n0 < 100000:
            die("Kaykobad.tla (three variables) emitted only %d states" % (len(cases) - n0))

    from pacti.iocontract import Var
    from pacti.terms.polyhedra import PolyhedralTerm, PolyhedralTermList

    def term(f):
        return PolyhedralTerm({Var(NAMES[k]): c for k, c in _fn(f["co"]).items()}, f["c"])

    drift, found = 0, 0
    for cs in cases:
        t = term(cs["term"])
        rows = [term(r) for r in cs["ctx"]]
        ctx = PolyhedralTermList(rows)
        elim = [Var(NAMES[str(v)]) for v in cs["elim"]]
        why = None
        try:
            try:
                sel, fv = PolyhedralTermList._get_kaykobad_context(t, ctx, list(elim), bool(cs["refine"]))
                got = {"kind": "rows", "rows": [[k + 1 for k, r in enumerate(ctx.terms) if r is s][0] for s in sel]}
            except ValueError:
                got = {"kind": "ValueError", "rows": []}
            want = {"kind": cs["sel"]["kind"], "rows": list(cs["sel"]["rows"])}
            found += want["kind"] == "rows"
            if got != want:
                why = "the selection is %s, the specification gives %s" % (got, want)
        except Exception as e:  # noqa: BLE001
            why = "raised %s: %s" % (type(e).__name__, str(e)[:80])
        if why:
            drift += 1
            if drift <= 3:
                print("SPEC-DRIFT property=%s tactic 1's row selection differs from Kaykobad.tla for term=%s context=%s eliminate=%s refine=%s: %s" %
                      (prop, json.dumps(cs["term"]), json.dumps(cs["ctx"]), cs["elim"], cs["refine"], why), flush=True)
    rep.cov["kaykobad_conformance"] = {"states_enumerated_by_tlc": len(cases), "selections_found": found, "replays": len(cases), "spec_drift": drift}
    rep.cov["traces_validated_against_impl"] = rep.cov.get("traces_validated_against_impl", 0) + len(cases)
    return len(cases), drift
