"""Design-level check and conformance of tactic 5's row selection with spec/Tlp.tla: TLC checks SOUNDNESS on every (term, context,
vars_to_elim, direction, solver status, ACTIVE SET) of the universe -- every subset of the context as the set of rows the solver
reports active, so every degenerate optimum is covered -- refutes two wrong variants (matrix not transposed; multiplier check skipped
for one variable) and a vacuity guard must find a selection for two variables; in generator mode one state in six is printed with the
selection, and the real _get_tlp_context is called on each with linprog replaced by a solver that reports the generated status and
active set.  Mismatches are SPEC-DRIFT lines."""
from __future__ import annotations

import json
import re

from tlcrun import require_clean, run_tlc, stats_of
from vcommon import die

NAMES = {"1": "x", "2": "y", "3": "z"}


def _fn(j):
    return j if isinstance(j, dict) else {str(i + 1): v for i, v in enumerate(j)}


def conformance(rep, rd, prop, tier="quick"):
    for cfg, must in (("Tlp.cfg", None), ("Tlp_wrong1.cfg", "Sound"), ("Tlp_wrong2.cfg", "Sound"), ("Tlp_vacuity1.cfg", "FoundTwo")):
        res = run_tlc("Tlp", cfg, rd, timeout=3000, gc="parallel", heap="12g")
        st = stats_of(res)
        st["invariants_violated"] = res["invariant_violated"]
        if must:
            if must not in str(res["invariant_violated"]):
                die("Tlp/%s: expected TLC to refute %s (wrong variant / vacuity guard), got %r" % (cfg, must, res["invariant_violated"]))
            st["expected_violation"] = must
            rep.add_tlc(st)
            continue
        require_clean(res, "Tlp/" + cfg)
        rep.add_tlc(st)
        if res["invariant_violated"]:
            print("SPEC-DRIFT property=%s design-level invariant %s violated in Tlp.tla (%s)" % (prop, res["invariant_violated"], cfg), flush=True)
    res = run_tlc("Tlp", "Tlp_gen.cfg", rd, workers=1, timeout=3000)
    require_clean(res, "Tlp_gen")
    rep.add_tlc(stats_of(res))
    cases, seen = [], set()
    for m in re.finditer(r'<<"CASE", "(.*?)">>\s*$', res["out"], re.M):
        if m.group(1) not in seen:
            seen.add(m.group(1))
            cases.append(json.loads(m.group(1).encode().decode("unicode_escape")))
    if len(cases) < 100000:
        die("Tlp.tla emitted only %d states" % len(cases))

    import numpy as np
    import pacti.terms.polyhedra.polyhedra as pp
    from pacti.iocontract import Var
    from scipy.optimize import OptimizeResult

    T = pp.PolyhedralTermList

    def term(f):
        return pp.PolyhedralTerm({Var(NAMES[k]): c for k, c in _fn(f["co"]).items()}, f["c"])

    cur = {}

    def fake_linprog(c, A_ub=None, b_ub=None, bounds=None, **kw):   # noqa: N803
        n = len(cur["active"])
        return OptimizeResult(status=cur["status"], slack=np.array([0.0 if a else 1.0 for a in cur["active"]], dtype=float),
                              x=np.zeros(len(np.atleast_1d(c))), fun=0.0, success=cur["status"] == 0, message="", nit=0, con=np.zeros(0) if n else np.zeros(0))

    orig = pp.linprog
    pp.linprog = fake_linprog
    drift, found = 0, 0
    try:
        for cs in cases:
            t = term(cs["term"])
            ctx = T([term(r) for r in cs["ctx"]])
            elim = [Var(NAMES[str(v)]) for v in cs["elim"]]
            cur.update(status=int(cs["status"]), active=[bool(a) for a in cs["active"]])
            why = None
            try:
                try:
                    sel, fv = T._get_tlp_context(t, ctx, list(elim), bool(cs["refine"]))
                    got = {"kind": "rows", "rows": [[k + 1 for k, r in enumerate(ctx.terms) if r is s][0] for s in sel]}
                except ValueError:
                    got = {"kind": "ValueError", "rows": []}
                want = {"kind": cs["sel"]["kind"], "rows": list(cs["sel"]["rows"])}
                found += want["kind"] == "rows"
                if got != want:
                    why = "the selection is %s, the specification gives %s" % (got, want)
            except Exception as e:  # noqa: BLE001
                why = "raised %s: %s" % (type(e).__name__, str(e)[:80])
            if why:
                drift += 1
                if drift <= 3:
                    print("SPEC-DRIFT property=%s tactic 5's row selection differs from Tlp.tla for term=%s context=%s eliminate=%s refine=%s status=%s active=%s: %s" %
                          (prop, json.dumps(cs["term"]), json.dumps(cs["ctx"]), cs["elim"], cs["refine"], cs["status"], cs["active"], why), flush=True)
    finally:
        pp.linprog = orig
    rep.cov["tlp_conformance"] = {"states_printed_by_tlc": len(cases), "selections_found": found, "replays": len(cases), "spec_drift": drift}
    rep.cov["traces_validated_against_impl"] = rep.cov.get("traces_validated_against_impl", 0) + len(cases)
    return len(cases), drift
