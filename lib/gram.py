"""C09 driver side: expression trees of the documented constraint grammar, their renderings in
several spellings, and an exact mirror of spec/Grammar.tla's normal forms used only to compute
hints (certificates / witness points) that TLC re-checks against its own reading of the tree."""
from __future__ import annotations

import itertools
from fractions import Fraction as F

import z3

import hints as H

Q = 4


# ------------------------------------------------------------------ forms (mirror of Grammar.tla)
def form(co=None, c=0, d=1):
    return {"co": dict(co or {}), "c": c, "d": d}


def scale(f, m):
    return form({v: a * m for v, a in f["co"].items()}, f["c"] * m, f["d"] * m)


def mulf(n, f):
    return form({v: a * n for v, a in f["co"].items()}, f["c"] * n, f["d"] * Q)


def negf(f):
    return form({v: -a for v, a in f["co"].items()}, -f["c"], f["d"])


def addf(f, g):
    d = max(f["d"], g["d"])
    ff, gg = scale(f, d // f["d"]), scale(g, d // g["d"])
    co = {v: ff["co"].get(v, 0) + gg["co"].get(v, 0) for v in set(ff["co"]) | set(gg["co"])}
    return form(co, ff["c"] + gg["c"], d)


ZERO = form()


def lin_of(t):
    if t["t"] == "num":
        return form({}, t["k"], Q)
    if t["t"] == "var":
        return form({t["n"]: t["k"]}, 0, Q)
    return mulf(t["k"], sum_lin(t["items"]))


def sum_lin(items):
    f = ZERO
    for it in reversed(items):
        f = addf(lin_of(it), f)
    return f


def side_nf(lin, ab):
    return {"lin": lin, "abs": list(ab)}


def kform(n):
    return form({}, n, Q)


def mul_side(n, s):
    return side_nf(mulf(n, s["lin"]), [{"k": form({}, a["k"]["c"] * n, a["k"]["d"] * Q), "body": a["body"]} for a in s["abs"]])


def add_side(s, u):
    return side_nf(addf(s["lin"], u["lin"]), s["abs"] + u["abs"])


def part_of(p):
    if p["t"] == "abs":
        return side_nf(ZERO, [{"k": kform(p["k"]), "body": sum_lin(p["items"])}])
    if p["t"] == "group":
        return mul_side(p["k"], side_of(p["parts"]))
    return side_nf(lin_of(p), [])


def side_of(parts):
    s = side_nf(ZERO, [])
    for p in reversed(parts):
        s = add_side(part_of(p), s)
    return s


def neg_side(s):
    return side_nf(negf(s["lin"]), [{"k": negf(a["k"]), "body": a["body"]} for a in s["abs"]])


def link_exprs(rel):
    S = [side_of(s) for s in rel["sides"]]
    if rel["op"] == "<=":
        return [add_side(S[i], neg_side(S[i + 1])) for i in range(len(S) - 1)]
    if rel["op"] == ">=":
        return [add_side(S[i + 1], neg_side(S[i])) for i in range(len(S) - 1)]
    return [add_side(S[0], neg_side(S[1])), add_side(S[1], neg_side(S[0]))]


def row_of(f):
    return {"co": {v: a for v, a in sorted(f["co"].items())}, "c": -f["c"], "k": f["d"]}


def bodies(links):
    return [a["body"] for l in links for a in l["abs"]]


def region_rows(bs, sg):
    return [row_of(negf(b) if s == 1 else b) for b, s in zip(bs, sg)]


def link_rows(links, sg):
    out, off = [], 0
    for l in links:
        f = l["lin"]
        acc = None
        for j, a in reversed(list(enumerate(l["abs"]))):
            s = sg[off + j]
            kb = form({v: x * a["k"]["c"] * s for v, x in a["body"]["co"].items()}, a["body"]["c"] * a["k"]["c"] * s, a["body"]["d"] * a["k"]["d"])
            acc = kb if acc is None else addf(kb, acc)
        # Grammar!LinkForm folds from the right and ends with the linear part
        full = f
        for j in range(len(l["abs"]) - 1, -1, -1):
            a = l["abs"][j]
            s = sg[off + j]
            kb = form({v: x * a["k"]["c"] * s for v, x in a["body"]["co"].items()}, a["body"]["c"] * a["k"]["c"] * s, a["body"]["d"] * a["k"]["d"])
            full = addf(kb, full)
        out.append(row_of(full))
        off += len(l["abs"])
    return out


def sg_key(sg):
    return "".join("p" if s == 1 else "m" for s in sg) if sg else "-"


def rel_vars(rel):
    vs = set()

    def walk(n):
        if isinstance(n, dict):
            if n.get("t") == "var":
                vs.add(n["n"])
            for v in n.values():
                walk(v)
        elif isinstance(n, list):
            for x in n:
                walk(x)

    walk(rel)
    return sorted(vs)


# ------------------------------------------------------------------ exact value (for the witness search)
def _form_z3(f, X, d):
    terms = [a * X[v] for v, a in f["co"].items() if a != 0]
    return (z3.Sum(terms) if terms else z3.IntVal(0)) + f["c"] * d


def _side_den(s):
    return max([s["lin"]["d"]] + [a["k"]["d"] * a["body"]["d"] for a in s["abs"]])


def _side_z3(s, X, d):
    D = _side_den(s)
    e = _form_z3(s["lin"], X, d) * (D // s["lin"]["d"])
    for a in s["abs"]:
        b = _form_z3(a["body"], X, d)
        e = e + a["k"]["c"] * z3.If(b >= 0, b, -b) * (D // (a["k"]["d"] * a["body"]["d"]))
    return e


def differing_point(rel, rows, names):
    """A point with small denominator where the written relation and the parsed rows disagree."""
    links = link_exprs(rel)
    for M, d in ((4, 1), (8, 2), (16, 4), (50, 1), (50, 8), (1000, 1), (1000, 4), (100000, 1), (100000, 2)):     # C09 is about all real points: no box
        X = {n: z3.Int(n) for n in names}
        s = z3.Solver()
        for n in names:
            s.add(X[n] <= M * d, X[n] >= -M * d)
        relh = z3.And([_side_z3(l, X, d) <= 0 for l in links]) if links else z3.BoolVal(True)
        rowsh = z3.And([H._holds(r, X, d) for r in rows]) if rows else z3.BoolVal(True)
        s.add(relh != rowsh)
        if s.check() == z3.sat:
            m = s.model()
            q = {n: m.eval(X[n], model_completion=True).as_long() for n in names}
            return {"kind": "witness", "mu": 1, "lam": {}, "d": d, "q": q}
    return None


def parse_hints(rel, rows, names):
    links = link_exprs(rel)
    bs = bodies(links)
    w = differing_point(rel, rows, names)
    if w is not None:
        return {"wit": w, "regions": {}}
    regions = {}
    for sg in itertools.product((1, -1), repeat=len(bs)):
        reg = region_rows(bs, sg)
        lrows = link_rows(links, sg)
        fwd = [H.strip(H.cert(reg + rows, names, t, exact_only=True, box=False) or H.NONE) for t in lrows]
        back = [H.strip(H.cert(reg + lrows, names, t, exact_only=True, box=False) or H.NONE) for t in rows]
        regions[sg_key(sg)] = {"fwd": fwd, "back": back}
    return {"wit": dict(H.NONE), "regions": regions}


# ------------------------------------------------------------------ rendering
def num_spellings(k):
    """spellings of the positive number k/4"""
    v = F(k, Q)
    out = []
    if v.denominator == 1:
        n = v.numerator
        out = ["%d" % n, "%d.0" % n, "%d." % n, "%de0" % n, "(%d/2)" % (2 * n), ".%de1" % n if n < 10 else "%d.00" % n, "(%d*0.5)" % (2 * n), "0.%dE+1" % n if n < 10 else "%d" % n,
               "(%d/2/2)" % (4 * n), "(2*%d/2)" % n,        # chained constant arithmetic
               "(%d-2/2)" % (n + 1),                         # precedence: * and / bind tighter than + and -
               ("(1+%d*2)" % ((n - 1) // 2)) if n % 2 else ("(2+%d*2)" % ((n - 2) // 2)) if n >= 2 else "(%d+0*5)" % n]
    else:
        dec = ("%s" % float(v))
        out = [dec, dec.lstrip("0") if dec.startswith("0.") else dec, "(%d/%d)" % (v.numerator, v.denominator), "%de-2" % int(v * 100), dec + "0",
               (dec.lstrip("0") if dec.startswith("0.") else dec) + "e0", ".0%se1" % dec[2:] if dec.startswith("0.") else dec]
    return out


class Style:
    def __init__(self, rng, idx):
        self.rng, self.idx = rng, idx
        self.space = ["", " ", " ", "  "][idx % 4]
        self.star = ["", "*", " * ", " "][idx % 4]
        self.eq = "==" if idx % 2 else "="

    def num(self, k, allow_omit_one):
        if abs(k) == Q and allow_omit_one and self.idx % 3 != 1:
            return ""
        sp = num_spellings(abs(k))
        return sp[(self.idx + abs(k)) % len(sp)]


def render_term(st, t, first):
    """signed rendering of a lin item / part; returns text including its leading sign"""
    k = t["k"]
    sign = "-" if k < 0 else "+"
    lead = ("-" if k < 0 else ("+" if st.idx % 5 == 4 else "")) if first else sign
    sp = st.space
    if t["t"] == "num":
        body = st.num(k, False)
    elif t["t"] == "var":
        n = st.num(k, True)
        body = t["n"] if n == "" else n + (st.star if st.star.strip() or n[-1] == ")" or not n[-1].isalpha() else " ") + t["n"]
        if n != "" and st.star == "" and (n[-1].isdigit() or n[-1] == ".") and n.lower().find("e") >= 0:
            body = n + "*" + t["n"]      # '2e0x' would read as exponent soup; keep the star there
    elif t["t"] in ("paren", "group"):
        n = st.num(k, True)
        inner = render_sum(st, t["items"] if t["t"] == "paren" else t["parts"])
        body = (n + (st.star if n else "")) + "(" + inner + ")"
    else:  # abs
        n = st.num(k, True)
        body = (n + (st.star if n else "")) + "|" + render_sum(st, t["items"]) + "|"
    if first:
        return lead + body
    return sp + lead + sp + body


def render_sum(st, items):
    return "".join(render_term(st, it, i == 0) for i, it in enumerate(items))


def render(rel, rng, idx):
    st = Style(rng, idx)
    op = rel["op"] if rel["op"] != "=" else st.eq
    return (st.space + op + st.space).join(render_sum(st, s) for s in rel["sides"])


# ------------------------------------------------------------------ generation
KS = [4, 4, 8, 12, 2, 6, -4, -8, -2, 5]


def gen_lin(rng, vs, depth, n=None):
    items = []
    for _ in range(n or rng.randint(1, 3)):
        r = rng.random()
        if r < 0.6:
            items.append({"t": "var", "k": rng.choice(KS), "n": rng.choice(vs)})
        elif r < 0.8 or depth <= 0:
            items.append({"t": "num", "k": rng.choice(KS)})
        else:
            items.append({"t": "paren", "k": rng.choice(KS), "items": gen_lin(rng, vs, depth - 1, rng.randint(1, 2))})
    return items


def gen_side(rng, vs, depth, absok=True, budget=None):
    parts = []
    for _ in range(rng.randint(1, 3)):
        r = rng.random()
        if absok and r < 0.3 and budget[0] > 0:
            budget[0] -= 1
            k = rng.choice([4, 4, 8, 2, 12, -4])
            parts.append({"t": "abs", "k": k, "items": gen_lin(rng, vs, 0, rng.randint(1, 2))})
        elif absok and r < 0.4 and depth > 0 and budget[0] > 0:
            inner = gen_side(rng, vs, 0, True, budget)
            parts.append({"t": "group", "k": rng.choice([4, 8, 2, -4, 12]), "parts": inner})
        else:
            parts += gen_lin(rng, vs, depth, 1)
    return parts


def gen_rel(rng, shape):
    nv = rng.choice([1, 2, 2, 3, 4])
    vs = ["x", "y", "z", "w"][:nv]
    budget = [3]
    if shape == "eq":
        return {"op": "=", "sides": [gen_lin(rng, vs, 1), gen_lin(rng, vs, 1)]}
    op = rng.choice(["<=", "<=", ">="])
    n = 3 if shape == "chain" else 2
    if shape == "repeat_abs":
        body = gen_lin(rng, vs, 0, rng.randint(1, 2))
        k1, k2 = rng.choice([4, 8, 2]), rng.choice([4, 4, 8])
        lhs = [{"t": "abs", "k": k1, "items": body}, {"t": "abs", "k": k2, "items": [dict(b) for b in body]}] + gen_lin(rng, vs, 0, rng.randint(0, 1))
        r = rng.random()
        if r >= 0.35 and rng.random() < 0.4:   # same linear part, another constant offset
            lhs[1] = {"t": "abs", "k": k2, "items": [dict(b) for b in body] + [{"t": "num", "k": rng.choice([4, -4, 8])}]}
        if rng.random() < 0.25:
            # two absolute values whose contents differ only from the FIFTH significant digit on (|x - 10001| + |x - 10004|): two terms, not one
            big = rng.choice([10001, 20001, 30002]) * Q
            v0 = vs[0]
            b1 = [{"t": "var", "k": Q, "n": v0}, {"t": "num", "k": -big}]
            b2 = [{"t": "var", "k": Q, "n": v0}, {"t": "num", "k": -(big + rng.choice([1, 2, 3]) * Q)}]
            lhs = [{"t": "abs", "k": k1, "items": b1}, {"t": "abs", "k": k2, "items": b2}]
            sides = [lhs, [{"t": "num", "k": rng.choice([4, 5, 8]) * Q}]]
            if op == ">=":
                sides.reverse()
            return {"op": op, "sides": sides}
        if r < 0.35:
            # occurrences that cancel exactly: the running coefficient of the term passes through zero
            mode = rng.random()
            rest = lhs[2:] or gen_lin(rng, vs, 0, 1)
            if mode < 0.4:
                # k1|b| - k1|b| + k3|b|: what is left is k3|b|, whatever the order in which the occurrences are combined
                k3 = rng.choice([4, 8, 12, 16])
                lhs = [{"t": "abs", "k": k1, "items": body}, {"t": "abs", "k": -k1, "items": [dict(b) for b in body]},
                       {"t": "abs", "k": k3, "items": [dict(b) for b in body]}] + rest
                if rng.random() < 0.3:
                    lhs[0], lhs[1] = lhs[1], lhs[0]
            elif mode < 0.7:
                # the term cancels altogether: -k|b| + k|b| + rest means rest
                lhs = [{"t": "abs", "k": -k1, "items": body}, {"t": "abs", "k": k1, "items": [dict(b) for b in body]}] + rest
                if rng.random() < 0.5:
                    lhs[0], lhs[1] = lhs[1], lhs[0]
                if rng.random() < 0.3:
                    lhs.insert(1, {"t": "var", "k": rng.choice(KS), "n": rng.choice(vs)})
            else:
                lhs.insert(1, {"t": "abs", "k": -k1, "items": [dict(b) for b in body]})
                if rng.random() < 0.5:
                    lhs[0], lhs[1] = lhs[1], lhs[0]
                    lhs[0], lhs[2] = lhs[2], lhs[0]
        elif r < 0.5:
            lhs.insert(rng.randint(0, 1), {"t": "abs", "k": 0, "items": [dict(b) for b in body]})      # written with the coefficient 0
        else:
            rng.shuffle(lhs)
        sides = [lhs, gen_lin(rng, vs, 0, 1)]
        if op == ">=":
            sides.reverse()
        return {"op": op, "sides": sides}
    if shape == "chain_abs":
        # the SAME absolute value on two sides of a chain:  y >= 3|x| >= |x| + 1  -- each link is judged on its own
        # (here the second link is not convex although the term is net-positive over the whole chain)
        body = gen_lin(rng, vs, 0, 1)
        k1, k2 = rng.sample([4, 8, 12, 16], 2)
        big = [{"t": "abs", "k": k1, "items": body}]
        small = [{"t": "abs", "k": k2, "items": [dict(b) for b in body]}, {"t": "num", "k": rng.choice([4, 8, -4])}]
        sides = [gen_lin(rng, vs, 0, 1), big, small]
        if op == "<=":
            sides.reverse()
        return {"op": op, "sides": sides}
    if shape == "nonconvex":
        lhs = gen_lin(rng, vs, 0, 1)
        rhs = [{"t": "abs", "k": rng.choice([4, 8]), "items": gen_lin(rng, vs, 0, 1)}] + gen_lin(rng, vs, 0, 1)
        sides = [lhs, rhs] if op == ">=" else [rhs, lhs]
        # abs on the large side of >= (or small side of <=) is convex; flip to make it non-convex half the time
        if rng.random() < 0.6:
            sides.reverse()
        return {"op": op, "sides": sides}
    sides = []
    for i in range(n):
        # absolute values are convex on the small side of <= (large side of >=)
        small = (i == 0) if op == "<=" else (i == n - 1)
        sides.append(gen_side(rng, vs, 1, absok=small or rng.random() < 0.15, budget=budget))
    if rng.random() < 0.2:
        # a factor that is exactly ZERO (written 0, or as constant arithmetic that evaluates to it) in front of a variable, a group or an
        # absolute value: the term is there and contributes nothing
        z = rng.random()
        item = ({"t": "var", "k": 0, "n": rng.choice(vs)} if z < 0.4 else
                {"t": "paren", "k": 0, "items": gen_lin(rng, vs, 0, 2)} if z < 0.7 else
                {"t": "abs", "k": 0, "items": gen_lin(rng, vs, 0, 1)})
        sides[0 if op == "<=" else n - 1].insert(rng.randint(0, 1), item)
    return {"op": op, "sides": sides}


def confusable(rng):
    """Two relations whose renderings differ only by a blank, with different meanings:  2e1 is the number
    20,  2 e1 is twice the variable e1.  Returned as [(rel, string)], to be parsed one after the other."""
    k = rng.choice([1, 2, 3])
    e = rng.choice([1, 2])
    other = rng.choice(["x", "y"])
    c = rng.choice([30, 50, 40])
    num = {"op": "<=", "sides": [[{"t": "var", "k": 4, "n": other}, {"t": "num", "k": 4 * k * 10 ** e}], [{"t": "num", "k": 4 * c}]]}
    var = {"op": "<=", "sides": [[{"t": "var", "k": 4, "n": other}, {"t": "var", "k": 4 * k, "n": "e%d" % e}], [{"t": "num", "k": 4 * c}]]}
    s_num = "%s + %de%d <= %d" % (other, k, e, c)
    s_var = "%s + %d e%d <= %d" % (other, k, e, c)
    pair = [(num, s_num), (var, s_var)]
    if rng.random() < 0.5:
        pair.reverse()
    return pair


def blank_inside(s):
    """a blank inside a relational operator or inside a number makes the string malformed"""
    import re

    m = re.search(r"\d\d", s)
    if m:
        return s[: m.start() + 1] + " " + s[m.start() + 1:]
    for op in ("<=", ">=", "=="):
        if op in s:
            return s.replace(op, op[0] + " " + op[1], 1)
    return s + " 1 2"


MALFORM = [
    lambda s: s.replace("<=", "<= <=", 1) if "<=" in s else s + " <= <= 1",
    lambda s: s + " +",
    lambda s: "(" + s,
    lambda s: s.replace("|", "", 1) if s.count("|") >= 2 else s + " |",
    lambda s: "<= " + s.split("<=")[-1] if "<=" in s else "= " + s,
    lambda s: s.replace("<=", "<", 1).replace(">=", ">", 1).replace("==", "=!", 1) if ("<=" in s or ">=" in s or "==" in s) else s + " $",
    blank_inside,
    lambda s: "(3/(2-2))zq + " + s,       # grammatical, but the constant divides by zero
    lambda s: "(1/0)zq + " + s,
]
