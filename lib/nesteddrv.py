"""Bounded-exhaustive conformance of NestedTermList (the disjunction of constraint lists underneath compound contracts) with
spec/Nested.tla: TLC checks the laws on all 17 689 pairs of lists of at most two interval alternatives (soundness of <=, exactness
of intersect, disjointness, membership), refutes completeness of <= (a named deviation of the code), and in generator mode prints
every pair with the answers; all are replayed into the real NestedPolyhedra.  Mismatches are SPEC-DRIFT lines."""
from __future__ import annotations

import json
import re

from tlcrun import require_clean, run_tlc, stats_of
from vcommon import die


def conformance(rep, rd, prop, tier="quick"):
    for cfg, must in (("Nested.cfg", None), ("Nested_incomplete.cfg", "LeComplete")):
        res = run_tlc("Nested", cfg, rd, timeout=900, gc="parallel")
        st = stats_of(res)
        st["invariants_violated"] = res["invariant_violated"]
        if must:
            if must not in str(res["invariant_violated"]):
                die("Nested/%s: expected TLC to refute %s, got %r" % (cfg, must, res["invariant_violated"]))
            st["expected_violation"] = must
            rep.add_tlc(st)
            continue
        require_clean(res, "Nested/" + cfg)
        rep.add_tlc(st)
        if res["invariant_violated"]:
            print("SPEC-DRIFT property=%s design-level invariant %s violated in Nested.tla" % (prop, res["invariant_violated"]), flush=True)
    res = run_tlc("Nested", "Nested_gen.cfg", rd, workers=1, timeout=900)
    require_clean(res, "Nested_gen")
    rep.add_tlc(stats_of(res))
    cases, seen = [], set()
    for m in re.finditer(r'<<"CASE", "(.*?)">>\s*$', res["out"], re.M):
        if m.group(1) not in seen:
            seen.add(m.group(1))
            cases.append(json.loads(m.group(1).encode().decode("unicode_escape")))
    if len(cases) < 17689:
        die("Nested.tla emitted only %d pairs" % len(cases))
    n_all = len(cases)

    import family

    if tier == "quick":
        cases = cases[::8]          # every eighth pair (the list is in TLC's enumeration order, which varies the second list fastest)
    whys = family.pmap(_check, cases, chunksize=32)
    drift = 0
    for cs, why in zip(cases, whys):
        if why:
            drift += 1
            if drift <= 3:
                print("SPEC-DRIFT property=%s NestedTermList differs from Nested.tla for a=%s b=%s: %s" % (prop, json.dumps(cs["a"]), json.dumps(cs["b"]), why), flush=True)
    rep.cov["nested_conformance"] = {"pairs_enumerated_by_tlc": n_all, "pairs_replayed": len(cases), "replays": 5 * len(cases), "spec_drift": drift}
    rep.cov["traces_validated_against_impl"] = rep.cov.get("traces_validated_against_impl", 0) + len(cases)
    return len(cases), drift


def _check(cs):
    import gen
    from pacti.contracts.polyhedral_iocontract import NestedPolyhedra
    from pacti.iocontract import Var

    def nested(alts, force=False):
        return NestedPolyhedra([gen.mk_list([({"x": 1}, iv["hi"]), ({"x": -1}, -iv["lo"])]) for iv in alts], force)

    def interval(tl):
        his = [float(t.constant) for t in tl.terms if list(t.variables.values()) == [1.0]]
        los = [-float(t.constant) for t in tl.terms if list(t.variables.values()) == [-1.0]]
        return {"lo": max(los), "hi": min(his)}

    x = Var("x")
    why = None
    try:
        A, B = nested(cs["a"]), nested(cs["b"])
        if bool(A <= B) != cs["le"]:
            why = "a <= b is %s, the specification gives %s" % (A <= B, cs["le"])
        elif bool(A == B) != cs["eq"]:
            why = "a == b is %s, the specification gives %s" % (A == B, cs["eq"])
        else:
            got = [interval(tl) for tl in A.intersect(B, False).nested_termlist]
            want = [{"lo": float(iv["lo"]), "hi": float(iv["hi"])} for iv in cs["meet"]]
            if got != want:
                why = "intersect gives %s, the specification gives %s" % (got, want)
        if why is None:
            try:
                nested(cs["a"], True)
                raised = False
            except ValueError:
                raised = True
            if raised != cs["raises"]:
                why = "the constructor with force_empty_intersection %s, the specification says it %s" % ("raises" if raised else "returns", "raises" if cs["raises"] else "returns")
        if why is None and cs["a"]:
            for p2, member in cs["members"].items():
                if bool(A.contains_behavior({x: int(p2) / 2.0})) != bool(member):
                    why = "contains_behavior(x = %s) is %s, the specification gives %s" % (int(p2) / 2.0, not member, member)
                    break
        if why is None and [interval(tl) for tl in A.nested_termlist] != [{"lo": float(iv["lo"]), "hi": float(iv["hi"])} for iv in cs["a"]]:
            why = "an operation changed its operand"
        if why is None and cs["disjA"] and cs["disjB"] and cs["a"] and cs["b"]:
            # compound contracts (assumptions over the input x, guarantees over the output y): merge intersects both sides
            from pacti.contracts import PolyhedralIoContractCompound

            def side(alts, v, force):
                return NestedPolyhedra([gen.mk_list([({v: 1}, iv["hi"]), ({v: -1}, -iv["lo"])]) for iv in alts], force)

            def ivs(nl, v):
                out = []
                for tl in nl.nested_termlist:
                    his = [float(t.constant) for t in tl.terms if list(t.variables.values()) == [1.0]]
                    los = [-float(t.constant) for t in tl.terms if list(t.variables.values()) == [-1.0]]
                    out.append({"lo": max(los), "hi": min(his)})
                return out

            y = Var("y")
            c1 = PolyhedralIoContractCompound(side(cs["a"], "x", True), side(cs["b"], "y", False), [x], [y])
            c2 = PolyhedralIoContractCompound(side(cs["b"], "x", True), side(cs["a"], "y", False), [x], [y])
            m = c1.merge(c2)
            f_ = lambda lst: [{"lo": float(iv["lo"]), "hi": float(iv["hi"])} for iv in lst]  # noqa: E731
            if ivs(m.a, "x") != f_(cs["meet"]) or ivs(m.g, "y") != f_(cs["meetBA"]):
                why = "merge of compound contracts gives assumptions %s / guarantees %s, the specification gives %s / %s" % (ivs(m.a, "x"), ivs(m.g, "y"), f_(cs["meet"]), f_(cs["meetBA"]))
    except Exception as e:  # noqa: BLE001
        why = "raised %s: %s" % (type(e).__name__, str(e)[:80])
    return why
