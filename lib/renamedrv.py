"""Bounded-exhaustive conformance of renaming with spec/Rename.tla (in the manner of listdrv.py / matrixdrv.py): TLC checks the
laws (substitution on every valuation of a grid, source gone, interface lists) on every state of the small universe, refutes the
wrong variant (the target's coefficient overwritten instead of added to), and in generator mode prints every state with the
renamed term list / the renamed interface lists; all of them are replayed into the real PolyhedralTerm.rename_variable,
PolyhedralTermList.rename_variable and PolyhedralIoContract.rename_variable / rename_variables.  Mismatches are SPEC-DRIFT lines."""
from __future__ import annotations

import json
import re

from tlcrun import require_clean, run_tlc, stats_of
from vcommon import die

NAMES = {1: "x", 2: "y", 3: "z", 4: "fresh_w"}


def _cases(rep, rd, cfg):
    res = run_tlc("Rename", cfg, rd, workers=1, timeout=1800)
    require_clean(res, cfg)
    rep.add_tlc(stats_of(res))
    out, seen = [], set()
    for m in re.finditer(r'<<"CASE", "(.*?)">>\s*$', res["out"], re.M):
        if m.group(1) not in seen:
            seen.add(m.group(1))
            out.append(json.loads(m.group(1).encode().decode("unicode_escape")))
    return out


def conformance(rep, rd, prop, tier="quick"):
    for cfg, must in (("Rename_terms.cfg", None), ("Rename_itf.cfg", None), ("Rename_wrong1.cfg", "Laws")):
        res = run_tlc("Rename", cfg, rd, timeout=1800, gc="parallel")
        st = stats_of(res)
        st["invariants_violated"] = res["invariant_violated"]
        if must:
            if must not in str(res["invariant_violated"]):
                die("Rename/%s: expected TLC to refute %s (wrong variant), got %r" % (cfg, must, res["invariant_violated"]))
            st["expected_violation"] = must
            rep.add_tlc(st)
            continue
        require_clean(res, "Rename/" + cfg)
        rep.add_tlc(st)
        if res["invariant_violated"]:
            print("SPEC-DRIFT property=%s design-level invariant %s violated in Rename.tla (%s)" % (prop, res["invariant_violated"], cfg), flush=True)
    cases = _cases(rep, rd, "Rename_gen_itf.cfg") + _cases(rep, rd, "Rename_gen_terms.cfg")
    n_itf = sum(1 for c in cases if c["mode"] == "itf")
    if n_itf < 500 or len(cases) - n_itf < 5000:
        die("Rename.tla emitted only %d interface and %d term-list cases" % (n_itf, len(cases) - n_itf))

    from pacti.contracts import PolyhedralIoContract
    from pacti.iocontract import Var
    from pacti.terms.polyhedra import PolyhedralTerm, PolyhedralTermList

    def term(t):
        return PolyhedralTerm({Var(NAMES[k]): c for k, c in zip(t["ks"], t["cf"])}, t["c"])

    def shape(t):
        return {"ks": [v.name for v in t.variables], "cf": [float(c) for c in t.variables.values()], "c": float(t.constant)}

    def want(t):
        return {"ks": [NAMES[k] for k in t["ks"]], "cf": [float(c) for c in t["cf"]], "c": float(t["c"])}

    drift, n = 0, 0
    for cs in cases:
        s, u = Var(NAMES[cs["s"]]), Var(NAMES[cs["u"]])
        why = None
        try:
            if cs["mode"] == "terms":
                tl = PolyhedralTermList([term(t) for t in cs["t"]])
                before = [shape(t) for t in tl.terms]
                got = [shape(t) for t in tl.rename_variable(s, u).terms]
                exp = [want(t) for t in cs["rt"]]
                if got != exp:
                    why = "TermList.rename_variable gives %s, the specification gives %s" % (got, exp)
                else:
                    single = [shape(t.rename_variable(s, u)) for t in tl.terms]
                    if single != exp:
                        why = "PolyhedralTerm.rename_variable gives %s, the specification gives %s" % (single, exp)
                if why is None and before != [shape(t) for t in tl.terms]:
                    why = "rename_variable changed its operand"
            else:
                inv, outv = [Var(NAMES[k]) for k in cs["inv"]], [Var(NAMES[k]) for k in cs["outv"]]
                c = PolyhedralIoContract(PolyhedralTermList([]), PolyhedralTermList([]), inv, outv)
                exp = cs["ri"]
                for how in ("one", "list"):
                    try:
                        r = c.rename_variable(s, u) if how == "one" else c.rename_variables([(NAMES[cs["s"]], NAMES[cs["u"]])])
                        got = {"exc": "none", "inv": [v.name for v in r.inputvars], "outv": [v.name for v in r.outputvars]}
                    except Exception as e:  # noqa: BLE001
                        got = {"exc": type(e).__name__, "inv": [NAMES[k] for k in exp["inv"]], "outv": [NAMES[k] for k in exp["outv"]]}
                    w = {"exc": exp["exc"], "inv": [NAMES[k] for k in exp["inv"]], "outv": [NAMES[k] for k in exp["outv"]]}
                    if got != w:
                        why = "rename (%s) gives %s, the specification gives %s" % (how, got, w)
                        break
                if why is None and ([v.name for v in c.inputvars], [v.name for v in c.outputvars]) != ([v.name for v in inv], [v.name for v in outv]):
                    why = "rename changed its operand's interface lists"
        except Exception as e:  # noqa: BLE001
            why = "raised %s: %s" % (type(e).__name__, e)
        n += 1
        if why:
            drift += 1
            if drift <= 3:
                print("SPEC-DRIFT property=%s renaming differs from Rename.tla for %s: %s" % (prop, json.dumps({k: cs[k] for k in ("mode", "t", "inv", "outv", "s", "u")}), why), flush=True)
    rep.cov["rename_conformance"] = {"cases_enumerated_by_tlc": len(cases), "interface_cases": n_itf, "replays": n, "spec_drift": drift}
    rep.cov["traces_validated_against_impl"] = rep.cov.get("traces_validated_against_impl", 0) + len(cases)
    return len(cases), drift
