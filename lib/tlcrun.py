"""Run TLC and parse what it prints (summary counts, PrintT verdict lines, invariant violations)."""
from __future__ import annotations

import os
import re
import shutil
import subprocess
import time

from vcommon import SPEC, NPROC, die, seed

JARS = "/opt/veriftools/tla/tla2tools.jar:/opt/veriftools/tla/CommunityModules-deps.jar"

_SUMMARY = re.compile(r"(\d+) states generated, (\d+) distinct states found, (\d+) states left on queue")
_VERDICT = re.compile(r'<<\s*"VERDICT"\s*,\s*(.*?)>>(?=\s*(?:<<\s*"VERDICT"|$))', re.S | re.M)


def run_tlc(
    module: str,
    cfg: str,
    workdir: str,
    env: dict | None = None,
    workers: int | None = None,
    simulate: str | None = None,
    depth: int | None = None,
    timeout: int = 3600,
    coverage: bool = False,
    extra: list | None = None,
    heap: str = "8g",
    dfs_queue: bool = False,
    gc: str = "serial",
):
    """Run TLC on SPEC/<module>.tla with SPEC/<cfg>; metadir inside workdir. Returns dict."""
    meta = os.path.join(workdir, "tlcmeta-%s-%d" % (module, int(time.time() * 1000) % 10**9))
    os.makedirs(meta, exist_ok=True)
    # measured: trace judging allocates heavily; ParallelGC/G1 spend minutes of system time
    # where SerialGC needs seconds (DESIGN 5).  Design-level runs may ask for "parallel".
    cmd = ["java", "-XX:+UseSerialGC" if gc == "serial" else "-XX:+UseParallelGC", "-Xmx" + heap]
    if dfs_queue:
        cmd.append("-Dtlc2.tool.queue.IStateQueue=StateDeque")
    cmd += ["-cp", JARS, "tlc2.TLC", "-workers", str(workers or NPROC), "-metadir", meta, "-noGenerateSpecTE"]
    cmd += ["-config", cfg if os.path.isabs(cfg) else os.path.join(SPEC, cfg)]
    if simulate is not None:
        cmd += ["-simulate", simulate]
        cmd += ["-seed", str(seed())]
    if depth is not None:
        cmd += ["-depth", str(depth)]
    if coverage:
        cmd += ["-coverage", "1"]
    if extra:
        cmd += extra
    cmd.append(os.path.join(SPEC, module + ".tla"))
    e = dict(os.environ)
    e.pop("JAVA_TOOL_OPTIONS", None)
    if env:
        e.update({k: str(v) for k, v in env.items()})
    t0 = time.time()
    try:
        p = subprocess.run(cmd, cwd=SPEC, env=e, capture_output=True, text=True, timeout=timeout)
        out, rc, timed_out = p.stdout + p.stderr, p.returncode, False
    except subprocess.TimeoutExpired as ex:
        out = (ex.stdout or b"").decode() if isinstance(ex.stdout, bytes) else (ex.stdout or "")
        rc, timed_out = -1, True
    shutil.rmtree(meta, ignore_errors=True)
    res = {
        "module": module,
        "cfg": os.path.basename(cfg),
        "rc": rc,
        "out": out,
        "wall_s": round(time.time() - t0, 2),
        "timed_out": timed_out,
        "generated": 0,
        "distinct": 0,
        "queue": 0,
    }
    m = None
    for m in _SUMMARY.finditer(out):
        pass
    if m:
        res["generated"], res["distinct"], res["queue"] = int(m.group(1)), int(m.group(2)), int(m.group(3))
    res["invariant_violated"] = re.findall(r"Invariant (\S+) is violated", out)
    res["property_violated"] = re.findall(r"(?:Action|Temporal) property (\S+) (?:is|was) violated", out)
    res["error"] = bool(re.search(r"^Error:", out, re.M)) and not res["invariant_violated"] and not res["property_violated"]
    res["completed"] = "Model checking completed" in out or "states generated" in out
    return res


def stats_of(res: dict) -> dict:
    return {k: res[k] for k in ("module", "cfg", "generated", "distinct", "wall_s", "rc")}


def require_clean(res: dict, what: str):
    """Design-level runs must complete without TLC errors; anything else is machinery failure."""
    if res["timed_out"]:
        die("%s: TLC timed out" % what)
    if res["error"] or (res["rc"] != 0 and not res["invariant_violated"] and not res["property_violated"]):
        tail = "\n".join(res["out"].splitlines()[-40:])
        die("%s: TLC failed (rc=%s)\n%s" % (what, res["rc"], tail))


def parse_verdicts(out: str) -> dict:
    """PrintT(<<"VERDICT", id, ...>>) lines -> {id: [fields...]}. Strings keep no quotes."""
    verdicts = {}
    # tolerant line-based parse: TLC prints each PrintT value on one line unless it is long,
    # in which case it wraps; we re-join wrapped lines by bracket matching.
    buf = ""
    depth = 0
    for line in out.splitlines():
        s = line.strip()
        if depth == 0:
            if not s.startswith('<<"VERDICT"') and not s.startswith('<< "VERDICT"'):
                continue
            buf = ""
        buf += (" " if buf else "") + s
        depth = buf.count("<<") - buf.count(">>")
        if depth <= 0:
            depth = 0
            inner = buf[buf.index("VERDICT") + 8 :]
            inner = inner.strip()
            if inner.startswith(","):
                inner = inner[1:]
            inner = inner.rstrip()
            if inner.endswith(">>"):
                inner = inner[:-2]
            fields = _split_top(inner)
            if fields:
                try:
                    key = int(fields[0])
                except ValueError:
                    key = fields[0]
                verdicts.setdefault(key, []).append(fields[1:])
            buf = ""
    return verdicts


def _split_top(s: str):
    out, cur, depth, instr = [], "", 0, False
    i = 0
    while i < len(s):
        ch = s[i]
        if instr:
            if ch == '"':
                instr = False
            else:
                cur += ch
        elif ch == '"':
            instr = True
        elif s.startswith("<<", i) or ch in "[{(":
            depth += 1
            cur += "<<" if s.startswith("<<", i) else ch
            i += 1 if s.startswith("<<", i) else 0
        elif s.startswith(">>", i) or ch in "]})":
            depth -= 1
            cur += ">>" if s.startswith(">>", i) else ch
            i += 1 if s.startswith(">>", i) else 0
        elif ch == "," and depth == 0:
            out.append(cur.strip())
            cur = ""
        else:
            cur += ch
        i += 1
    if cur.strip():
        out.append(cur.strip())
    return out
