"""C13 -- operations are pure: operands unchanged, results independent of history.

R1  spec/Session.tla: all well-typed histories up to length 2 over the operation alphabet (TLC).
R2  TLC -simulate emits random well-typed histories of length 24 (seeded).
R3  each history is replayed into the real library (lib/sessdrv.py) with deep snapshots before and
    after every step, in-place scrambling of every result, and re-execution of every step in a
    pristine forked interpreter; spec/TraceSession.tla judges every step.
"""
from __future__ import annotations

import json
import re
import shutil

import family
from tlcrun import run_tlc, stats_of, require_clean
from vcommon import Report, digest, die, run_dir, seed

PROP = "C13"
_PRISTINE = None


def simulate(rep, rd, cfg, n, depth, tag):
    res = run_tlc("Session", cfg, rd, workers=1, simulate="num=%d" % (n + 8), depth=depth, timeout=900)
    out, seen = [], set()
    for m in re.finditer(r'<<"HISTORY", "(.*?)">>\s*$', res["out"], re.M):
        s = m.group(1).encode().decode("unicode_escape")
        if s not in seen:
            seen.add(s)
            out.append({"focus": tag == "focus", "mode": tag, "hist": json.loads(s)})
        if len(out) >= n:
            break
    rep.add_tlc(stats_of(res))
    return out


def gen_histories(rep, rd, n, only_hash=False):
    if only_hash:
        return simulate(rep, rd, "Session_hash.cfg", n, 32, "hash")
    res = run_tlc("Session", "Session_small.cfg", rd, timeout=600)
    require_clean(res, "Session/Session_small.cfg")
    rep.add_tlc(stats_of(res))
    if res["invariant_violated"]:
        print("SPEC-DRIFT property=%s Session.tla typing invariant violated" % PROP, flush=True)
    res = run_tlc("Session", "Session_gen.cfg", rd, workers=1, simulate="num=%d" % (n + 8), depth=52, timeout=900)
    out = res["out"]
    hs, seen = [], set()
    for m in re.finditer(r'<<"HISTORY", "(.*?)">>\s*$', out, re.M):
        s = m.group(1).encode().decode("unicode_escape")
        if s in seen:
            continue
        seen.add(s)
        hs.append(json.loads(s))
        if len(hs) >= n:
            break
    if len(hs) < min(n, 5):
        die("Session.tla generated only %d histories\n%s" % (len(hs), out[-2000:]))
    rep.add_tlc(stats_of(res))
    # focused histories: few operations (compose, quotient, elim_refine, merge, copy) on a pool of three values, so that
    # the same call recurs within a session and state carried from one call to the next shows
    res = run_tlc("Session", "Session_focus.cfg", rd, workers=1, simulate="num=%d" % (n + 8), depth=28, timeout=900)
    fs, seen2 = [], set()
    for m in re.finditer(r'<<"HISTORY", "(.*?)">>\s*$', res["out"], re.M):
        s = m.group(1).encode().decode("unicode_escape")
        if s not in seen2:
            seen2.add(s)
            fs.append({"focus": True, "hist": json.loads(s)})
        if len(fs) >= n:
            break
    rep.add_tlc(stats_of(res))
    # histories around the one operation that edits its target (IoContract.simplify()) on contracts stored unsimplified
    return ([{"focus": False, "hist": h} for h in hs] + fs + simulate(rep, rd, "Session_hash.cfg", n // 2, 32, "hash")
            + simulate(rep, rd, "Session_terms.cfg", n // 2, 32, "terms")
            + simulate(rep, rd, "Session_twins.cfg", n // 2, 36, "twins")
            + simulate(rep, rd, "Session_solver.cfg", n // 2, 30, "solver"))      # values that print alike     # the term-level API on lists whose coefficients can cancel


def run_case(case):
    global _PRISTINE
    import sessdrv

    if _PRISTINE is None:
        _PRISTINE = sessdrv.Pristine()   # forked before this worker executed any pacti operation
    rng = family.rng_for(case["seed"], PROP, case["id"])
    small = case.get("focus") or case.get("mode") in ("hash", "solver")
    evs = sessdrv.run_history(case["hist"], rng, _PRISTINE, nseed=3 if small else 6, chain=bool(case.get("focus")), mode=case.get("mode", ""))
    for e in evs:
        e["groups"] = ["pure", "determ", "exc", "coh"]
    return {"id": case["id"], "ev": evs}


def main(tier, replay=None, prop=PROP, rep=None):
    collect = rep is not None
    rep = rep or Report(prop, tier)
    rd = run_dir(prop)
    sd = seed()
    if replay:
        with open(replay) as f:
            cases = [json.load(f)["case"]["case"]]
    else:
        n = 64 if tier == "quick" else (2000 if prop == PROP else 300)
        hs = gen_histories(rep, rd, n, only_hash=prop == "C19")
        cases = [{"id": i + 1, "hist": h["hist"], "focus": h["focus"], "mode": h.get("mode", ""), "seed": sd} for i, h in enumerate(hs)]
    traces = family.pmap(run_case, cases, chunksize=1)
    verdicts = family.judge_traces(rep, "TraceSession", "TraceSession.cfg", traces, rd, batch=200)
    counts, nontriv, n_ev, opc = {}, set(), 0, {}
    by_id = {c["id"]: c for c in cases}
    for t in traces:
        for l, ev in enumerate(t["ev"], 1):
            n_ev += 1
            if not ev["skipped"]:
                k = ev["op"] + ("" if ev["exc"] == "none" else "!")
                opc[k] = opc.get(k, 0) + 1
            for grp in ev["groups"]:
                kind, detail = verdicts[(t["id"], l, grp)]
                key = "%s/%s:%s" % (grp, kind, detail if kind == "violation" else detail.split(":")[0])
                counts[key] = counts.get(key, 0) + 1
                if kind == "violation":
                    owner = {"exc": "C14", "coh": "C19"}.get(grp, "C13")
                    if owner != prop:
                        counts["other-property:" + owner] = counts.get("other-property:" + owner, 0) + 1
                        continue
                    rep.violation({"op": ev["op"], "group": grp, "kind": detail},
                                  {"case": by_id[t["id"]], "step": l, "event": family.clean_json(ev), "verdict": [grp, kind, detail]})
            if not ev["skipped"]:
                nontriv.add(digest([ev["op"], ev["param"], ev.get("_res"), ev["exc"], t["id"] if ev["exc"] != "none" else 0]))
        if len(rep.cov["samples"]) < 2:
            rep.sample({"history": by_id[t["id"]]["hist"][:8], "steps": [{k: e[k] for k in ("op", "args", "param", "exc", "res", "fresh")} for e in t["ev"][:8]]})
    shutil.rmtree(rd, ignore_errors=True)
    if collect:
        return {"session_steps": n_ev, "session_histories": len(traces), "session_verdicts": counts, "session_operations": opc}
    return rep.finish({
        "evaluations": n_ev,
        "distinct_nontrivial": len(nontriv),
        "traces_validated_against_impl": len(traces),
        "rule": "histories of 24 operations generated by TLC -simulate from Session.tla over 33 operations (contracts, lists, compound contracts; "
                "one of them, IoContract.simplify(), edits its target by design and must change nothing else) and a pool seeded with 6 values, focused "
                "histories on three values (composition chain; contracts stored unsimplified with hashing and in-place simplification); "
                "results are fed back; every step: deep snapshots of all pool members / argument lists / module globals before and after, "
                "in-place scrambling of the result, re-execution in a pristine forked interpreter; non-trivial = executed step, distinct by "
                "(operation, parameter, result snapshot)",
        "verdict_counts": counts,
        "operations_executed": dict(sorted(opc.items())),      # "!" = raised
        "exhaustive": False,
    })
