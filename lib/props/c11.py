"""C11 -- behaviour membership and emptiness agree with exact arithmetic."""
from fractions import Fraction as F

import family
import gen
import lpev
from props.c03 import feasible_list
from props.c07 import comb
from vcommon import seed

PROP = "C11"


def boundary_behaviours(rng, L, vs):
    """dyadic behaviours on, one step inside and one step outside the boundary of each row"""
    out = []
    step = F(1, rng.choice([1, 2, 4, 8]))
    for co, c in L:
        v0 = rng.choice(sorted(co))
        beh = {v: F(rng.randint(-8, 8), rng.choice([1, 2, 4])) for v in vs}
        rest = sum(F(a) * beh[v] for v, a in co.items() if v != v0)
        on = (F(c) - rest) / F(co[v0])
        if on.denominator & (on.denominator - 1):   # not dyadic: float evaluation would not be exact
            continue
        for delta in (0, step, -step):
            b = dict(beh)
            b[v0] = on + delta
            if b[v0].denominator <= 64 and abs(b[v0]) < 1000:
                out.append({k: float(x) for k, x in b.items()})
    if out and rng.random() < 0.4:
        b = dict(rng.choice(out))
        b[rng.choice(sorted(b))] = 0.0          # a variable assigned exactly zero
        out.append(b)
    if out and rng.random() < 0.3:
        b = dict(rng.choice(out))
        used = sorted({v for co, _ in L for v in co})
        b.pop(rng.choice(used))                 # a constrained variable left unassigned
        out.append(b)
    if out and len(L) > 1 and rng.random() < 0.4:
        # a constrained variable left unassigned WHILE another row, all of whose variables have values, is violated: still ValueError
        for co, c in L:
            others = sorted({v for co2, _ in L for v in co2} - set(co))
            if others:
                b = {v: 0.0 for v in vs}
                v0 = sorted(co)[0]
                b[v0] = float((F(c) + 5) / F(co[v0]))          # breaks this row by 5
                b.pop(others[0])
                out.append(b)
                break
    return out


def gen_case(rng, i):
    nv = rng.choice([1, 2, 3, 4, 5])
    vs = gen.VARS6[6 - nv:]
    dy = 0.25 if i % 3 == 0 else 0.0
    kind = ["member", "member", "empty", "consistency"][i % 4]
    L, pt = feasible_list(rng, vs, rng.randint(1, 4), dy)
    c = {"kind": kind, "L": L}
    if kind == "member" and i % 8 == 1:
        # bounds of large magnitude: the boundary is as sharp there as anywhere (points 2^-7 .. 2^-3 outside are outside)
        K = rng.choice([2**12, 2**14, 10000, 2**16])
        v0 = vs[0]
        a0 = rng.choice([1, -1, 2])
        c["L"] = [({v0: a0}, K * (1 if a0 > 0 else -1) * rng.choice([1, -1]))] + (L[:1] if nv > 1 and rng.random() < 0.5 else [])
        on = F(c["L"][0][1]) / a0
        behs = []
        for delta in (0, F(1, 128), -F(1, 128), F(1, 8), -F(1, 8), F(1, 32)):
            b = {v: float(F(rng.randint(-8, 8), rng.choice([1, 2, 4]))) for v in vs}
            b[v0] = float(on + delta)
            behs.append(b)
        c["behs"] = behs
    elif kind == "member":
        c["behs"] = boundary_behaviours(rng, L, vs)[:7]
    elif kind == "empty":
        shape = rng.choice(["feasible", "contradiction", "thin_infeasible", "thin_feasible", "cycle", "few_rows", "repeated_lhs", "late_link", "print_twin"])
        if shape == "contradiction":
            r = rng.choice(L)
            c["L"] = L + [({v: -a for v, a in r[0].items()}, -r[1] - rng.choice([1, 2, 3]))]
        elif shape in ("thin_infeasible", "thin_feasible"):
            r = rng.choice(L)
            m = rng.choice([1, 2.0**-3, 2.0**-7, 2.0**-10])
            c["L"] = L + [({v: -a for v, a in r[0].items()}, -r[1] + (m if shape == "thin_feasible" else -m))]
        elif shape == "print_twin":
            # two lists that PRINT alike (20.0039 prints as 20): a thin feasible one and one that is infeasible by 2^-8, asked one after the other
            K, v0 = rng.choice([20, 12, 35]), vs[0]
            thin = [({v0: 1}, K + 2.0**-8), ({v0: -1}, -K)]
            none = [({v0: 1}, K), ({v0: -1}, -(K + 2.0**-8))]
            c["L"] = thin if rng.random() < 0.5 else none
            c["twin"] = none if c["L"] is thin else thin
            c["keep_order"] = True
        elif shape == "late_link" and nv >= 2:
            # rows over disjoint variables first, the row that connects them last: the contradiction needs all of them
            a_, b_ = vs[0], vs[1]
            k = rng.choice([1, 2, 3])
            c["L"] = [({a_: 1}, 0), ({b_: 1}, 0), ({a_: -1, b_: -1}, -k)] if rng.random() < 0.7 else [({a_: 1}, 0), ({b_: -1}, 0), ({a_: -1, b_: 1}, -k)]
            if nv > 2 and rng.random() < 0.5:
                c["L"].insert(rng.randint(0, 2), ({vs[2]: 1}, 3))
            c["keep_order"] = True
        elif shape == "repeated_lhs":
            # the same left-hand side three times with different bounds: a loose copy first, the contradiction, the tight copy last
            r = rng.choice(L)
            c["L"] = [(dict(r[0]), r[1] + rng.randint(3, 6))] + L + [({v: -a for v, a in r[0].items()}, -r[1] + 1), (dict(r[0]), r[1] - rng.choice([2, 3]))]
            c["keep_order"] = True
        elif shape == "cycle" and nv >= 2:
            a, b = vs[0], vs[1]
            c["L"] = [({a: 1, b: -1}, 0), ({b: 1, a: -1}, -rng.choice([1, 2]))] + (L if rng.random() < 0.5 else [])
        elif shape == "few_rows":
            # infeasible with no more rows than variables (dependent contradictory rows)
            co, _ = gen.rterm_raw(rng, vs, nmax=min(3, nv))
            c["L"] = [(co, 1), ({v: -a for v, a in co.items()}, -2)]
        if not c.pop("keep_order", False):
            rng.shuffle(c["L"])
    else:
        Rr = [r for r in (comb(rng, L, rng.choice([0, 1])) for _ in range(2)) if r] or list(L)
        if rng.random() < 0.4:
            Rr = gen.rlist_raw(rng, vs, 1, 2)
        c["R"] = Rr
        c["behs"] = boundary_behaviours(rng, L, vs)[:4]
        if rng.random() < 0.4:
            # SEPARATED: the planted point of the left list lies beyond one right-hand row (whose coefficients are no unit vector and whose
            # bound is rarely zero) -- the left list does not refine the right one, and the planted point says so
            co, _ = gen.rterm_raw(rng, vs, nmax=min(3, nv))
            k = rng.choice([2, 3, 4])
            co = {v: a * k for v, a in co.items()} if rng.random() < 0.6 else co
            lhs = sum(a * pt[v] for v, a in co.items())
            far = (co, lhs - rng.choice([1, 2, 4]))
            c["R"] = ([far] + Rr[:1]) if rng.random() < 0.5 else [far]
            c["behs"] = [{v: float(pt[v]) for v in vs}] + c["behs"][:3]
    return c


def gen_cases(tier):
    sd = seed()
    n = 1200 if tier == "quick" else 40000
    out = []
    for i in range(n):
        c = gen_case(family.rng_for(sd, PROP, i), i)
        c["id"] = i + 1
        out.append(c)
    return out


def run_case(case):
    evs = []
    if case["kind"] == "member":
        # on every other case ONE list object answers all the queries of the case, one after the other (a query leaves the list as it was)
        shared = gen.mk_list(case["L"]) if case["id"] % 2 == 0 else None
        evs = [lpev.ev_contains(case["L"], b, shared) for b in case["behs"]]
    elif case["kind"] == "empty":
        evs = [lpev.ev_empty(case["L"])]
        if case.get("twin"):
            evs.append(lpev.ev_empty(case["twin"]))
    else:
        objs = (gen.mk_list(case["L"]), gen.mk_list(case["R"])) if case["id"] % 8 == 4 else None
        evs = [lpev.ev_consistency(case["L"], case["R"], b, objs) for b in case["behs"] if set(b) >= {v for co, _ in case["L"] + case["R"] for v in co}]
    if case.get("only_event"):
        evs = evs[case["only_event"] - 1: case["only_event"]]
        case = dict(case)
    return {"id": case["id"], "ev": evs}


def _extra(rep, rd, tier):
    from vcommon import drift_tier

    drift_tier(PROP, "LP-algorithm", lambda: __import__("lpalgo").conformance(rep, rd, PROP, {"is_empty", "refines"}, 160 if tier == "quick" else 3200, seed()))
    # evaluate / contains_behavior as the code does them, on every (list, partial assignment) of a small universe (spec/Evaluate.tla)
    drift_tier(PROP, "evaluation", lambda: __import__("evaldrv").conformance(rep, rd, PROP, tier))


def main(tier, replay=None):
    return lpev.run(
        PROP, tier, gen_cases(tier), run_case,
        "membership: dyadic behaviours on / one step inside / one step outside the boundary of each row (so float evaluation is exact), a "
        "zero-valued variable, an unassigned constrained variable, bounds of magnitude 2^12 .. 2^16 with points 2^-7 .. 2^-3 off the boundary -- TLC evaluates every row itself; emptiness: planted point, planted "
        "contradiction, margins 1 .. 2^-10, contradictory cycles, infeasible systems with no more rows than variables -- truth from a "
        "box-free Farkas certificate or a feasible point checked by TLC; consistency of membership with refinement on recorded values",
        owner=lambda ev: PROP, replay=replay,
        extra=lambda rep, rd: _extra(rep, rd, tier),
        nontrivial=lambda ev, kind, detail: kind == "ok",
    )
