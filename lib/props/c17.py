"""C17 -- compound (disjunctive) contracts behave as unions of polyhedra."""
from __future__ import annotations

import itertools
import json
import shutil
from fractions import Fraction as F

import z3

import clauses as C
import family
import gen
import hints as H
import rows as R
from vcommon import Report, digest, die, run_dir, seed

PROP = "C17"
NONE = dict(H.NONE)


def box_alt(rng, vs, lo, hi):
    """an alternative: interval on the first variable plus optional half-planes"""
    v = vs[0]
    out = [({v: 1}, hi), ({v: -1}, -lo)]
    if len(vs) > 1 and rng.random() < 0.5:
        out.append(gen.rrow(rng, vs[1:], nmax=2, posbias=0.9))
    if len(vs) > 1 and rng.random() < 0.3:
        out.append(({vs[0]: 1, vs[1]: rng.choice([1, -1])}, rng.randint(hi, hi + 6)))
    return out


def alternatives(rng, vs, n, mode):
    """n alternatives along the first variable: disjoint / touching / overlapping / one empty"""
    alts, lo = [], rng.randint(-6, -2)
    for k in range(n):
        w = rng.randint(1, 3)
        alts.append(box_alt(rng, vs, lo, lo + w))
        gap = {"disjoint": rng.randint(1, 3), "touching": 0, "overlapping": -rng.randint(1, w), "mixed": rng.choice([2, 0, -1])}[mode]
        lo = lo + w + gap
    order = list(range(n))
    rng.shuffle(order)
    return [alts[i] for i in order]


def slabs(rng, vs, n, mode):
    """n alternatives that are SLABS across a direction over several variables (one or two rows each, fewer rows than variables when
    two of them are joined): half-space below, strips, half-space above; disjoint / touching / overlapping as for boxes"""
    d = {v: rng.choice([1, 1, 2, -1]) for v in vs[: rng.randint(2, len(vs))]}
    neg = {v: -a for v, a in d.items()}
    alts, lo = [], rng.randint(-4, 0)
    for k in range(n):
        w = rng.randint(1, 3)
        rows = []
        if k > 0:
            rows.append((dict(neg), -lo))
        if k < n - 1:
            rows.append((dict(d), lo + w))
        alts.append(rows or [(dict(d), lo + w)])
        gap = {"disjoint": rng.randint(1, 3), "touching": 0, "overlapping": -rng.randint(1, w), "mixed": rng.choice([2, 0, -1])}[mode]
        lo = lo + w + gap
    order = list(range(n))
    rng.shuffle(order)
    return [alts[i] for i in order]


def alts_rows(nested):
    return [C.prows(tl) for tl in nested.nested_termlist]


def names_of(*altlists):
    s = set()
    for al in altlists:
        for a in al:
            s |= R.rows_vars(a)
    return sorted(s)


def union_z3(alts, X, d):
    return z3.Or([z3.And([H._holds(r, X, d) for r in a]) if a else z3.BoolVal(True) for a in alts]) if alts else z3.BoolVal(False)


def out_z3(alts, X, d):
    return z3.And([z3.Or([H._broken(r, X, d) for r in a]) if a else z3.BoolVal(False) for a in alts]) if alts else z3.BoolVal(True)


def find_point(names, cond):
    for M, d in ((8, 1), (8, 2), (16, 4), (100, 1), (100, 4)):
        X = {n: z3.Int(n) for n in names}
        s = z3.Solver()
        for n in names:
            s.add(X[n] <= M * d, X[n] >= -M * d)
        s.add(cond(X, d))
        if s.check() == z3.sat:
            m = s.model()
            return {"kind": "witness", "mu": 1, "lam": {}, "d": d, "q": {n: m.eval(X[n], model_completion=True).as_long() for n in names}}
    return None


def certs(hyp, rows_, names):
    return [H.strip(H.cert(hyp, names, t, exact_only=True, box=False) or NONE) for t in rows_]


def side_hints(A, B, Rr, names):
    res = []
    for k, rk in enumerate(Rr):
        best = None
        for i, j in itertools.product(range(len(A)), range(len(B))):
            cs = certs(rk, A[i] + B[j], names)
            if all(c["kind"] == "cert" for c in cs):
                best = {"i": i + 1, "j": j + 1, "certs": cs}
                break
        if best is None:
            best = {"i": 1, "j": 1, "certs": []}
        best["point"] = H.feasible_point(rk, names) or NONE
        res.append(best)
    pairs = {}
    for i, j in itertools.product(range(len(A)), range(len(B))):
        key = "%d.%d" % (i + 1, j + 1)
        ic = H.infeas_cert(A[i] + B[j], names, box=False)
        if ic is not None:
            pairs[key] = {"kind": "infeasible", "cert": H.strip(ic), "k": 0, "certs": []}
            continue
        ent = {"kind": "open", "cert": NONE, "k": 0, "certs": []}
        for k, rk in enumerate(Rr):
            cs = certs(A[i] + B[j], rk, names)
            if all(c["kind"] == "cert" for c in cs):
                ent = {"kind": "covered", "cert": NONE, "k": k + 1, "certs": cs}
                break
        pairs[key] = ent
    return {"res": res, "pairs": pairs}


def refute_merge(A, B, Rr, names):
    return find_point(names, lambda X, d: z3.Or(z3.And(union_z3(A, X, d), union_z3(B, X, d), out_z3(Rr, X, d)),
                                                z3.And(union_z3(Rr, X, d), z3.Or(out_z3(A, X, d), out_z3(B, X, d)))))


def mk_nested(alts, force):
    from pacti.contracts.polyhedral_iocontract import NestedPolyhedra

    return NestedPolyhedra([gen.mk_list(a) for a in alts], force)


def outcome(fn):
    try:
        return fn(), "none"
    except Exception as e:  # noqa: BLE001
        return None, type(e).__name__


def run_case(case):
    from pacti.contracts import PolyhedralIoContractCompound
    from pacti.iocontract import Var

    evs = []
    k = case["kind"]
    if k == "construct":
        alts = case["alts"]
        via = case.get("via", "nested")
        if via == "copy":
            # built unchecked, then copied with the disjointness requirement
            _, exc = outcome(lambda: mk_nested(alts, False).copy(True))
        elif via == "contract":
            # built unchecked, then handed to the contract constructor as ASSUMPTIONS (which must be disjoint)
            inputs = sorted({v for a in alts for co, _ in a for v in co})
            _, exc = outcome(lambda: PolyhedralIoContractCompound(mk_nested(alts, False), mk_nested([[({"out_o": 1}, 1)]], False),
                                                                  [Var(v) for v in inputs], [Var("out_o")]))
        else:
            _, exc = outcome(lambda: mk_nested(alts, True))
        A = [C.prows(gen.mk_list(a)) for a in alts]
        names = names_of(A)
        hints = {}
        for i, j in itertools.combinations(range(len(A)), 2):
            h = H.feasible_point(A[i] + A[j], names) or H.infeas_cert(A[i] + A[j], names, box=False) or NONE
            hints["%d.%d" % (i + 1, j + 1)] = H.strip(h)
        evs.append({"op": "cconstruct", "alts": A, "ans": "ok" if exc == "none" else exc, "hints": hints, "names": names})
    elif k == "contains":
        nested, exc = outcome(lambda: mk_nested(case["alts"], False))
        A = [C.prows(gen.mk_list(a)) for a in case["alts"]]
        for beh in case["behs"]:
            v, e2 = outcome(lambda: nested.contains_behavior({Var(x): float(y) for x, y in beh.items()}))
            vals = {x: F(y) for x, y in beh.items()}
            d = 1
            for y in vals.values():
                d = d * y.denominator // __import__("math").gcd(d, y.denominator)
            evs.append({"op": "ccontains", "alts": A, "q": {x: int(y * d) for x, y in vals.items()}, "d": d,
                        "ans": ("true" if v else "false") if e2 == "none" else e2, "hints": {}, "names": names_of(A)})
    elif k == "le":
        L, Rr = mk_nested(case["L"], False), mk_nested(case["R"], False)
        v, exc = outcome(lambda: L <= Rr)
        A, B = alts_rows(L), alts_rows(Rr)
        names = names_of(A, B)
        w = find_point(names, lambda X, d: z3.And(union_z3(A, X, d), out_z3(B, X, d))) if v else None
        evs.append({"op": "cle", "L": A, "R": B, "ans": ("true" if v else "false") if exc == "none" else exc, "hints": {"wit": w or NONE}, "names": names})
    else:  # merge of compound contracts
        def build(spec):
            return PolyhedralIoContractCompound(mk_nested(spec["a"], True), mk_nested(spec["g"], False),
                                                [Var(v) for v in spec["inv"]], [Var(v) for v in spec["outv"]])

        c1, e1 = outcome(lambda: build(case["c1"]))
        c2, e2 = outcome(lambda: build(case["c2"]))
        if c1 is None or c2 is None:
            return {"id": case["id"], "ev": []}
        def proj(c):
            return {"inv": [str(v) for v in c.inputvars], "outv": [str(v) for v in c.outputvars], "a": alts_rows(c.a), "g": alts_rows(c.g)}

        def merge_event(x, y):
            r, exc = outcome(lambda: x.merge(y))
            p1, p2 = proj(x), proj(y)
            ev = {"op": "cmerge", "c1": p1, "c2": p2, "res": {"inv": [], "outv": [], "a": [], "g": []}, "exc": exc, "names": [],
                  "hints": {"wa": NONE, "wg": NONE, "a": {"res": [], "pairs": {}}, "g": {"res": [], "pairs": {}}}}
            if r is not None:
                pr = proj(r)
                ev["res"] = pr
                names = names_of(p1["a"], p1["g"], p2["a"], p2["g"], pr["a"], pr["g"])
                ev["names"] = names
                ev["hints"] = {"wa": refute_merge(p1["a"], p2["a"], pr["a"], names) or NONE, "wg": refute_merge(p1["g"], p2["g"], pr["g"], names) or NONE,
                               "a": side_hints(p1["a"], p2["a"], pr["a"], names), "g": side_hints(p1["g"], p2["g"], pr["g"], names)}
            return ev, r

        ev, r = merge_event(c1, c2)
        evs.append(ev)
        if r is not None and "c3" in case:
            # a history: the result of a merge (possibly with no alternative left) is merged again
            c3, e3 = outcome(lambda: build(case["c3"]))
            if c3 is not None:
                evs.append(merge_event(r, c3)[0] if case.get("flip") else merge_event(c3, r)[0])
    for e in evs:
        e["groups"] = ["compound"]
    return {"id": case["id"], "ev": evs}


def gen_cases(tier):
    sd = seed()
    n = 360 if tier == "quick" else 10000
    out = []
    for i in range(n):
        rng = family.rng_for(sd, PROP, i)
        kind = ["construct", "contains", "le", "merge", "merge", "construct"][i % 6]
        nv = rng.choice([1, 2, 3, 4])
        vs = ["x", "y", "z", "w"][:nv]
        mode = ["disjoint", "touching", "overlapping", "mixed"][(i // 6) % 4]
        c = {"id": i + 1, "kind": kind}
        if kind == "construct":
            c["via"] = ["nested", "copy", "contract"][(i // 3) % 3]
            c["alts"] = alternatives(rng, vs, rng.randint(2, 3), mode)
            # the construction cases take turns through six families (f), independently of the gap mode (which has period 4)
            f = (2 * (i // 6) + (1 if i % 6 == 5 else 0)) % 6
            if nv >= 2 and f == 1:
                c["alts"] = slabs(rng, vs, rng.randint(2, 3), mode)
            if nv >= 2 and f == 2:
                # alternatives over DIFFERENT variable sets: the first is cut off from the second only through a variable the second
                # does not mention (x <= y, y <= h  against  x >= h + gap)
                h, gap = rng.randint(-2, 2), {"disjoint": rng.randint(1, 2), "touching": 0, "overlapping": -rng.randint(1, 2), "mixed": rng.choice([1, 0, -1])}[mode]
                x, y = vs[0], vs[1]
                c["alts"] = [[({x: 1, y: -1}, 0), ({y: 1}, h)], [({x: -1}, -(h + gap))]]
                if rng.random() < 0.5:
                    c["alts"].reverse()
            if f == 3:
                # three or four alternatives, the only overlapping pair does NOT involve the first one listed
                w = rng.randint(1, 2)
                tail = [box_alt(rng, vs, 0, 2 + w), box_alt(rng, vs, 1 + w, 5 + w)]
                rng.shuffle(tail)
                c["alts"] = [box_alt(rng, vs, -12, -10)] + ([box_alt(rng, vs, 20, 22)] if rng.random() < 0.4 else []) + tail
                c["via"] = "nested"
            if f == 4:
                # three alternatives, only the first and the last overlap
                w = rng.randint(1, 2)
                c["alts"] = [box_alt(rng, vs, 0, 2 + w), box_alt(rng, vs, 10, 12), box_alt(rng, vs, 1 + w, 5 + w)]
        elif kind == "contains":
            c["alts"] = alternatives(rng, vs, rng.randint(1, 3), mode)
            behs = []
            for _ in range(6):
                b = {v: rng.choice([-3, -1, 0, 1, 2, 4, 0.5, -2.5]) for v in vs}
                b[vs[0]] = rng.choice([-6, -4, -3, -2, -1, 0, 1, 2, 3, 5, 7, 0.5, -1.5])
                behs.append(b)
            c["behs"] = behs
        elif kind == "le":
            c["L"] = alternatives(rng, vs, rng.randint(1, 3), mode)
            if i % 4 == 2:
                # the left alternative leaves the right union only at points with a NEGATIVE coordinate
                lo, hi = -rng.randint(2, 5), rng.randint(1, 3)
                c["L"] = [box_alt(rng, vs[:1], lo, hi)]
                c["R"] = [box_alt(rng, vs[:1], lo + rng.randint(1, -lo), hi), box_alt(rng, vs[:1], hi + 3, hi + 5)]
                if rng.random() < 0.5:
                    c["R"].reverse()
            elif rng.random() < 0.35:
                # the right side covers the FIRST left alternative only
                first = c["L"][0]
                hi, lo = first[0][1], -first[1][1]
                c["R"] = [box_alt(rng, vs[:1], lo - rng.randint(0, 2), hi + rng.randint(0, 1))]
            elif rng.random() < 0.5:
                # right side: one wide alternative covering some of the left alternatives
                c["R"] = [box_alt(rng, vs, rng.randint(-8, -3), rng.randint(0, 4))]
            else:
                c["R"] = alternatives(rng, vs, rng.randint(1, 3), "disjoint")
        else:
            inv, outv = vs[:1], (vs[1:2] or ["o"])
            def spec():
                g = [box_alt(rng, outv + inv, rng.randint(-5, 0), rng.randint(1, 6)) for _ in range(rng.randint(1, 2))]
                if i % 5 == 2:
                    g = slabs(rng, outv + inv, rng.randint(1, 2), "disjoint")      # sparse alternatives: joined pairwise they have no more rows than variables
                if i % 5 == 4:
                    g = g[:1] + [[]]                                              # "otherwise nothing is promised": an alternative without any constraint
                a_ = alternatives(rng, inv, rng.randint(1, 3), "disjoint")
                if i % 10 == 9:
                    a_ = [[]]                                                     # no assumption at all, written as one alternative without constraints
                return {"inv": inv, "outv": outv, "a": a_, "g": g}
            c["c1"], c["c2"] = spec(), spec()
            if (i // 6) % 3 != 1:
                # a history of two merges; in half of them the first merge leaves no alternative at all on one side
                c["c3"], c["flip"] = spec(), rng.random() < 0.5
                if rng.random() < 0.6:
                    side, v = rng.choice([("g", outv[0]), ("a", inv[0])])
                    c["c2"][side] = [[(co, cst + 30 * co[v]) if set(co) == {v} else (co, cst) for co, cst in alt] for alt in c["c2"][side]]
        out.append(c)
    return out


def main(tier, replay=None):
    rep = Report(PROP, tier)
    rd = run_dir(PROP)
    cases = gen_cases(tier)
    if replay:
        with open(replay) as f:
            cases = [json.load(f)["case"]["case"]]
    traces = [t for t in family.pmap(run_case, cases, chunksize=2) if t["ev"]]
    verdicts = family.judge_traces(rep, "TraceCompound", "TraceCompound.cfg", traces, rd, batch=300)
    counts, nontriv, n_ev = {}, set(), 0
    by_id = {c["id"]: c for c in cases}
    for t in traces:
        for l, ev in enumerate(t["ev"], 1):
            n_ev += 1
            kind, detail = verdicts[(t["id"], l, "compound")]
            counts["%s/%s:%s" % (ev["op"], kind, detail.split(":")[0] if kind == "violation" and detail.startswith("exception") else detail)] = \
                counts.get("%s/%s:%s" % (ev["op"], kind, detail.split(":")[0] if kind == "violation" and detail.startswith("exception") else detail), 0) + 1
            if kind == "ok":
                nontriv.add(digest([ev["op"], family.clean_json({k: v for k, v in ev.items() if k not in ("hints",)})]))
            if kind == "malformed":
                die("C17 malformed: " + detail)
            if kind == "violation":
                rep.violation({"op": ev["op"], "law": detail.split(":")[0] if detail.startswith("exception") else detail},
                              {"case": by_id[t["id"]], "event": family.clean_json(ev), "verdict": [kind, detail]})
            if l == 1 and len(rep.cov["samples"]) < 3 and ev["op"] in ("cmerge", "cconstruct"):
                rep.sample({"op": ev["op"], "case": by_id[t["id"]], "verdict": [kind, detail]})
    if not replay:
        from vcommon import drift_tier

        # NestedTermList as coded, on interval alternatives: every pair of spec/Nested.tla into the real NestedPolyhedra
        drift_tier(PROP, "nested-lists", lambda: __import__("nesteddrv").conformance(rep, rd, PROP, tier))
    shutil.rmtree(rd, ignore_errors=True)
    return rep.finish({
        "evaluations": n_ev,
        "distinct_nontrivial": len(nontriv),
        "traces_validated_against_impl": len(traces) + rep.cov.get("traces_validated_against_impl", 0),   # + pairs replayed by the nested-list tier
        "rule": "nested lists with 1-3 alternatives over <= 4 variables (intervals along one variable plus half-planes): disjoint, touching, overlapping, "
                "mixed, in shuffled order; the disjointness requirement through the nested-list constructor, through copy(True) of a list built unchecked "
                "and through the contract constructor given such a list as assumptions, membership of dyadic behaviours, <= between nested lists, "
                "merge of compound contracts; TLC evaluates union membership itself and checks certificates (every result alternative inside a pairwise "
                "intersection, every non-empty pairwise intersection inside a result alternative, result alternatives non-empty) or a refuting point",
        "verdict_counts": counts,
        "exhaustive": False,
    })
