"""C15 -- composition and merging never forget an interface-level guarantee."""
import family
import gen
import ops
import opsprop
from props import c08
from vcommon import seed

PROP = "C15"


def overlap(rng, d1, d2):
    """Plant identical / scaled / mutually implied interface-level guarantee rows on both sides."""
    shared = [v for v in d1["inv"] if v in d2["inv"]]
    # interface variables of the composition: inputs not produced by the other side, outputs not consumed
    top = shared or [v for v in d1["inv"] if v not in d2["outv"]]
    if not top:
        return
    for _ in range(rng.randint(1, 2)):
        r = gen.rrow(rng, top, nmax=min(2, len(top)))
        how = rng.random()
        allowed1 = set(d1["inv"]) | set(d1["outv"])
        allowed2 = set(d2["inv"]) | set(d2["outv"])
        if set(r[0]) <= allowed1:
            d1["g"].append(r)
        if set(r[0]) <= allowed2:
            tw = c08.first_coefficient_twin(r)
            if how >= 0.85 and set(r[0]) <= allowed1 and r in d1["g"]:
                base, twin = c08.near_twin(rng, r)        # one coefficient off by 10^-5 of itself: a different guarantee
                d1["g"][d1["g"].index(r)] = base
                d2["g"].append(twin)
            elif tw and how < 0.2:
                d2["g"].append(tw)         # same variables, same last coefficient and bound, another first coefficient: NOT the same guarantee
            else:
                d2["g"].append(r if how < 0.4 else (c08.scaled(r, 2) if how < 0.7 else c08.weakened(r, 1)))


def gen_cases(tier):
    sd = seed()
    n = 300 if tier == "quick" else 8000
    cases = []
    for i in range(n):
        rng = family.rng_for(sd, PROP, i)
        if i % 3 == 2:
            shape = c08.SHAPES[i % 4]
            for _ in range(20):
                d1, d2 = c08.viewpoint_pair(rng, shape)
                try:
                    gen.mk_contract(d1), gen.mk_contract(d2)
                    break
                except ValueError:
                    continue
            else:
                continue
            cases.append({"id": i + 1, "raw": [d1, d2], "op": "merge", "swap": False, "cfgs": [None]})
            continue
        if i % 10 == 1:
            # one viewpoint REFINES the other over the same interface (weaker assumption, a guarantee that implies the other's only under the
            # other's stronger assumption): merging is not "take the finer one" -- the coarse guarantee is still owed
            a_, b_, d_ = rng.randint(0, 3), rng.randint(1, 3), rng.randint(1, 3)
            coarse = {"inv": ["v"], "outv": ["o"], "a": [({"v": 1}, a_)], "g": [({"o": 1}, a_ + b_)]}
            fine = {"inv": ["v"], "outv": ["o"], "a": [({"v": 1}, a_ + d_)], "g": [({"o": 1, "v": -1}, b_)]}
            cases.append({"id": i + 1, "raw": [coarse, fine] if rng.random() < 0.5 else [fine, coarse], "op": "merge", "swap": False, "cfgs": [None]})
            continue
        if i % 10 == 5:
            # rows of very different magnitude split across the two sides (an opposite pair here, a row with 10^4..10^5 there): the
            # redundancy LPs of the joint simplification are the ones the solver's presolve tends to misreport
            a_, b_, B = rng.choice([1, 1.5, 2, 3]), rng.choice([1e5, 3e5, 2e5]), rng.choice([10, 300100, 1000])
            c_, d_, C_ = rng.choice([1e5, 1e4, 5e4]), rng.choice([250, 1, 40, 1000]), rng.choice([99960, 10, 1000])
            sg = rng.choice([1, -1])
            d1 = {"inv": ["i", "j"], "outv": ["p"], "a": [], "g": [({"i": -c_, "j": sg * d_}, C_), ({"p": 1, "i": -1}, 0)]}
            d2 = {"inv": ["i"], "outv": ["o"], "a": [], "g": [({"i": a_, "o": -b_}, B), ({"i": -a_, "o": b_}, B)]}
            if rng.random() < 0.5:
                d1["outv"], d2["outv"] = ["o"], ["o"]
                d1["g"] = d1["g"][:1]
                cases.append({"id": i + 1, "raw": [d1, d2], "op": "merge", "swap": False, "cfgs": [None]})
            else:
                cases.append({"id": i + 1, "raw": [d1, d2], "op": "compose", "swap": False, "cfgs": [([], True, None), ([], False, None)]})
            continue
        if i % 10 == 7:
            # an interface-level guarantee of ONE side that is implied only through the connection: the producer bounds its input by
            # a combination of its outputs, the consumer bounds those outputs and states the resulting bound on the shared input itself
            a, b, k = rng.randint(1, 4), rng.randint(1, 4), rng.choice([1, 2])
            d1 = {"inv": ["x"], "outv": ["y1", "y2"], "a": [], "g": [({"x": k, "y1": -k, "y2": -k}, 0)]}
            d2 = {"inv": ["y1", "y2", "x"], "outv": ["p"], "a": [], "g": [({"y1": 1}, a), ({"y2": 1}, b), ({"x": 1}, a + b + rng.choice([0, 0, 1])), ({"p": 1, "x": -1}, 0)]}
            if rng.random() < 0.5:
                d2["g"].reverse()
            cases.append({"id": i + 1, "raw": [d1, d2], "op": "compose", "swap": False, "cfgs": [([], True, None), ([], True, gen.rorder(rng)), ([], False, None)]})
            continue
        schema = ["shared", "casc_shared", "indep", "cascade", "casc_extra", "fanout"][i % 6]
        for _ in range(30):
            d1, d2, swap = gen.pair_raw(rng, schema)
            overlap(rng, d1, d2)
            try:
                gen.mk_contract(d1), gen.mk_contract(d2)
                break
            except ValueError:
                continue
        else:
            continue
        cfgs = [([], True, None), ([], False, None)]
        conn = [v for v in d1["outv"] if v in d2["inv"]]
        if conn and rng.random() < 0.6:
            # both sides state the same (or a scaled / weaker) guarantee over a connection variable that is kept
            y = rng.choice(conn)
            r = gen.rrow(rng, [y] + [v for v in d1["inv"] if v in d2["inv"]][:1], must=y, nmax=2)
            d1["g"].append(r)
            d2["g"].append(r if rng.random() < 0.5 else c08.scaled(r, 2))
            try:
                gen.mk_contract(d1), gen.mk_contract(d2)
                cfgs += [([y], True, None), (list(conn), True, gen.rorder(rng))]
            except ValueError:
                d1["g"].pop(), d2["g"].pop()
        ks = gen.keep_choices(rng, d1, d2)
        cfgs.append((rng.choice(ks), rng.random() < 0.5, gen.rorder(rng)))
        cases.append({"id": i + 1, "raw": [d1, d2], "op": "compose", "swap": swap, "cfgs": cfgs})
    return cases


def run_case(case):
    d1, d2 = case["raw"]
    evs = []
    if case["op"] == "merge":
        for j, (x, y) in enumerate(((d1, d2), (d2, d1)), 1):
            if case.get("only_event") and case["only_event"] != j:
                continue
            evs.append(ops.ev_merge(gen.mk_contract(x), gen.mk_contract(y), ["keeps"]))
        return {"id": case["id"], "ev": evs}
    j = 0
    for keep, simp, order in case["cfgs"]:
        for sw in (case["swap"], not case["swap"]):
            j += 1
            if case.get("only_event") and case["only_event"] != j:
                continue
            c1, c2 = gen.mk_contract(d1), gen.mk_contract(d2)
            if sw:
                c1, c2 = c2, c1
            evs.append(ops.ev_compose(c1, c2, keep, simp, order, ["keeps", "exact"]))
    return {"id": case["id"], "ev": evs}


def sig_extra(case, ev):
    return {"connected": bool((set(ev["c1"]["outv"]) & set(ev["c2"]["inv"])) | (set(ev["c1"]["inv"]) & set(ev["c2"]["outv"])))}


def main(tier, replay=None):
    return opsprop.run(
        PROP, tier, gen_cases(tier), run_case,
        "pairs whose guarantees overlap on interface variables (identical, scaled, weakened rows on both sides), composed "
        "in both call orders with simplify on/off and kept variables, or merged; clause groups keeps (every operand "
        "guarantee over the result's interface is implied by the result) and exact (no connection => exact conjunction); "
        "non-trivial = the operation returned and at least one operand guarantee lies over the result's interface",
        replay=replay, design=("Alg_keeps_quick.cfg", "Alg_keeps.cfg"), sig_extra=sig_extra,
        nontrivial=lambda ev: ev["exc"] == "none" and bool(ev["_clauses"].get("keeps")),
    )
