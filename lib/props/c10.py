"""C10 -- contracts survive serialisation to dictionaries, strings and files."""
from __future__ import annotations

import json
import os
import shutil
import struct

import clauses as C
import family
import gen
import hints as H
from tlcrun import run_tlc, stats_of, require_clean
from vcommon import Report, digest, die, run_dir, seed

PROP = "C10"
NUMS = [1, 2, 3, 5, 0.5, 1.5, 0.25, 12.5, 0.125, 7, 40, 250, 0.02, 1.234, 99.95, 0.3, 1e3, 123.4, 2e5, 1e6, 3e5, 1e5, 0.0002]
WILD = [1 / 3, 2.0 ** 0.5, 3.14159265, 1234.567, 0.000123456, 7.77777e4, 65432.1, 0.99996, 19.99949]


def rnum(rng, wild):
    x = rng.choice(WILD if (wild and rng.random() < 0.6) else NUMS)
    return x if rng.random() < 0.5 else -x


def ceil4(x):
    """smallest number with <= 4 significant digits that is >= x"""
    import math
    from decimal import ROUND_CEILING, Decimal

    if x == 0:
        return 0.0
    d = Decimal(repr(float(x)))
    e = d.adjusted()
    q = Decimal(1).scaleb(e - 3)
    return float(d.quantize(q, rounding=ROUND_CEILING))


def lhs_at(co, pt):
    from fractions import Fraction as F

    return float(sum(F(a) * F(pt[v]) for v, a in co.items()))


def rrow(rng, vs, wild, pt):
    k = rng.randint(1, min(3, len(vs)))
    co = {v: (rng.choice([1, -1, 1.0]) if rng.random() < 0.25 else rnum(rng, wild)) for v in rng.sample(vs, k)}
    val = lhs_at(co, pt)
    slack = abs(rnum(rng, wild)) + 2e-3 * abs(val) if rng.random() < 0.85 else 2e-3 * abs(val)
    c = val + slack
    return co, (c if wild else ceil4(c))


def opposite(raw, how, rng, wild, pt):
    co, c = raw
    neg = {v: -a for v, a in co.items()}
    val = lhs_at(co, pt)
    if how == "eq":
        # lhs = c : only consistent if the planted point sits on it; move the bound of the base row there
        return neg, -c
    if how == "abs":
        return neg, c if c >= abs(val) else ceil4(abs(val) + abs(c))
    c2 = -val + abs(rnum(rng, wild)) + 2e-3 * abs(val)
    return neg, (c2 if wild else ceil4(c2))


def gen_case(rng, i):
    wild = i % 3 == 2
    inv = ["i", "j"][: rng.randint(1, 2)]
    outv = ["o", "p"][: rng.randint(1, 2)]
    if i % 4 == 3:
        # names that look like the exponent of a number when they follow a coefficient without a blank (2e1, 3E2)
        inv = [rng.choice(["e1", "E2", "e12"])] + inv[1:]
        if rng.random() < 0.5:
            outv = outv[:-1] + [rng.choice(["e3", "E1"])]
    pt = {v: rng.choice([0, 1, -1, 2, 0.5, -2.5, 4]) for v in inv + outv}
    near = None
    if i % 4 == 1:
        # an opposite pair whose bounds are NEARLY equal / nearly negated: they differ by a few units of the fourth significant
        # digit (mantissa in the upper half), so they print differently and must not be folded into '=' or '|.|'
        B, u = rng.choice([(9992, 1), (5002, 1), (7.503, 0.001), (0.6004, 0.0001), (85.02, 0.01)])
        v = rng.choice(inv + outv)
        sg = rng.choice([1, -1])
        k = rng.choice([1, 2, 3])
        if rng.random() < 0.5:
            pt[v] = sg * B
            near = (v, [({v: sg}, round(B + k * u, 6)), ({v: -sg}, round(-(B - k * u), 6))])                 # B-ku <= sg*v <= B+ku
        else:
            if abs(pt[v]) > B - k * u:
                pt[v] = 0          # the planted point has to lie inside the pair
            near = (v, [({v: sg}, round(B + k * u, 6)), ({v: -sg}, round(B - k * u, 6))])                    # -(B-ku) <= sg*v <= B+ku
    a = [rrow(rng, inv, wild, pt) for _ in range(rng.randint(0, 2))]
    g = [rrow(rng, inv + outv, wild, pt) for _ in range(rng.randint(1, 3))]
    for lst in (a, g):
        if lst and rng.random() < 0.7:
            j = rng.randrange(len(lst))
            how = rng.choice(["eq", "abs", "other"])
            if how == "eq":
                co, _ = lst[j]
                v = lhs_at(co, pt)
                if not wild and float("%.4g" % v) != v:
                    how = "other"            # the value at the planted point has more than four digits: leave the row as it is
                else:
                    lst[j] = (co, v)
            opp = opposite(lst[j], how, rng, wild, pt)
            if how == "abs" and opp[1] != lst[j][1]:
                lst[j] = (lst[j][0], opp[1])
            lst.insert(rng.randint(0, len(lst)), opp)       # partner in any position, before or after
            if rng.random() < 0.3:
                lst.insert(rng.randint(0, len(lst)), rrow(rng, inv + (outv if lst is g else []), wild, pt))
        elif lst and rng.random() < 0.35:
            # a LATER row that negates an earlier one on a strict SUBSET of its variables, with the bound
            # negated or equal: not an opposite pair either
            cand = [j for j, (co, c) in enumerate(lst) if len(co) >= 2]
            if cand:
                j = rng.choice(cand)
                co, c = lst[j]
                drop = rng.choice(sorted(co))
                sub = {v: -a for v, a in co.items() if v != drop}
                val = lhs_at(sub, pt)
                for c2 in (-c, c):
                    if val <= c2:
                        lst.insert(rng.randint(j + 1, len(lst)), (sub, c2))
                        break
        elif lst and rng.random() < 0.6:
            # a later row that negates an earlier one on the shared variables but mentions one more
            # variable, with the same bound: NOT an opposite pair, must not be folded
            j = rng.randrange(len(lst))
            co, c = lst[j]
            allowed = inv + (outv if lst is g else [])
            extra = [v for v in allowed if v not in co]
            if extra:
                w = rng.choice(extra)
                e = abs(rnum(rng, False))
                e = -e if pt[w] > 0 else e
                c2 = max(c, ceil4(-lhs_at(co, pt) + e * pt[w] + 1e-3))
                lst[j] = (co, c2) if c2 >= lhs_at(co, pt) else lst[j]
                if lst[j][1] == c2:
                    lst.insert(rng.randint(j + 1, len(lst)), ({**{v: -a for v, a in co.items()}, w: e}, c2))
    if i % 7 == 5 and not wild:
        # a term with TWO opposite partners: one with the same bound (the pair folds into |...| <= c) and a tighter one with another
        # bound, which has to survive the folding
        allowed = inv + outv
        co = {v: rng.choice([1, -1, 2, 0.5]) for v in rng.sample(allowed, rng.randint(1, min(2, len(allowed))))}
        val = lhs_at(co, pt)
        c_abs = ceil4(abs(val) + rng.choice([3, 5, 2.5]))
        c_tight = ceil4(-val + rng.choice([0.5, 1, 0.25]))
        neg = {v: -x for v, x in co.items()}
        trio = [(co, c_abs), (neg, c_abs), (dict(neg), c_tight)]
        if rng.random() < 0.5:
            trio[1], trio[2] = trio[2], trio[1]
        lst = g if (set(co) - set(inv)) or rng.random() < 0.5 else a
        j = rng.randint(0, len(lst))
        for t_ in trio:
            lst.insert(j, t_)
            j = rng.randint(j + 1, len(lst))
    if i % 7 in (1, 6) and not wild:
        # a NEARLY opposite pair of small numbers: one coefficient of the order of 10^-4 differs in its second or third digit (by less than
        # 10^-5 in absolute terms): not an opposite pair, nothing may be folded
        v = rng.choice(inv)
        w = rng.choice(outv)
        small = 0.0002
        delta = rng.choice([0.000008, -0.000008])          # 0.000208 = 13/62500, 0.000192 = 3/15625: small integer images
        # equal bounds on both (what would fold into |..| <= c if the terms were opposite)
        c1_ = c2_ = ceil4(max(abs(lhs_at({v: small, w: 1}, pt)), abs(lhs_at({v: small + delta, w: 1}, pt))) + rng.choice([0.5, 1]))
        j = rng.randint(0, len(g))
        g.insert(j, ({v: small, w: 1}, c1_))
        g.insert(rng.randint(j + 1, len(g)), ({v: round(-(small + delta), 7), w: -1}, c2_))
    if i % 7 == 3:
        # an opposite pair that CONTRADICTS itself (equal negative bounds, or pushed apart): the contract has no behaviour, which the
        # printed form must say too (kept unsimplified; a reader that re-simplifies may refuse it)
        v1, v2 = (rng.sample(inv + outv, 2) + [None])[:2] if len(inv + outv) > 1 else (inv[0], None)
        co = {v1: rng.choice([1, 2, -1])}
        if v2 and rng.random() < 0.7:
            co[v2] = rng.choice([-1, 1, 3])
        k1 = rng.choice([3, 1, 2.5, 40])
        k2 = k1 if rng.random() < 0.6 else k1 + rng.choice([1, 2])
        lst = g if (set(co) - set(inv)) or rng.random() < 0.5 else a
        j = rng.randint(0, len(lst))
        lst.insert(j, (co, -k1))
        lst.insert(rng.randint(j + 1, len(lst)), ({v: -x for v, x in co.items()}, -k2))
    if near:
        lst = a if (near[0] in inv and rng.random() < 0.5) else g
        pair = near[1] if rng.random() < 0.5 else list(reversed(near[1]))
        j = rng.randint(0, len(lst))
        lst.insert(j, pair[0])
        lst.insert(rng.randint(j + 1, len(lst)), pair[1])
    return {"inv": inv, "outv": outv, "a": a, "g": g, "wild": wild}


def gen_cases(tier):
    sd = seed()
    n = 300 if tier == "quick" else 10000
    return [{"id": i + 1, "raw": gen_case(family.rng_for(sd, PROP, i), i)} for i in range(n)]


def bits(x):
    return struct.pack("<d", float(x))


def same_numbers(c1, c2):
    def nums(c):
        out = []
        for tl in (c.a, c.g):
            for t in tl.terms:
                out.append(sorted((str(k), bits(v)) for k, v in t.variables.items()))
                out.append(bits(t.constant))
        return out

    return nums(c1) == nums(c2)


def round4(d):
    def r(x):
        return float("%.4g" % float(x))

    return {"inv": d["inv"], "outv": d["outv"], "a": [({v: r(a) for v, a in co.items()}, r(c)) for co, c in d["a"]],
            "g": [({v: r(a) for v, a in co.items()}, r(c)) for co, c in d["g"]]}


def run_case(case):
    from pacti.contracts import PolyhedralIoContract
    from pacti.utils.fileio import read_contracts_from_file, write_contracts_to_file

    d = case["raw"]
    tmpdir = case["dir"]
    c0 = gen.mk_contract(d, simplify=False)
    p0 = C.pcontract(c0)
    c4 = gen.mk_contract(round4(d), simplify=False)
    p4 = C.pcontract(c4)
    evs = []

    def ev(form, orig, fn, semantic):
        e = {"form": form, "orig": orig, "back": dict(C.EMPTY), "exc": "none", "exact": True, "eq": True, "ok": True, "hints": [], "names": [], "g": 0,
             "groups": ["serial"], "_strings": None, "eqok": True, "bits": False, "infeas": dict(H.NONE), "rounded": bool(d["wild"]),
             "file": {"names_w": [], "names_r": [], "kinds_w": [], "kinds_r": []}, "feas": dict(H.NONE)}
        try:
            back, extra = fn()
            e["back"] = C.pcontract(back)
            e.update(extra)
        except Exception as ex:  # noqa: BLE001
            e["exc"] = "ValueError" if isinstance(ex, ValueError) else type(ex).__name__
            e["_msg"] = str(ex)[:120]
            e["names"] = sorted(C.cvars(orig))
            if e["exc"] == "ValueError":
                # a certificate over the rows that could be read exactly (rows of wide magnitude take no part; indices refer to the full list)
                allrows = orig["a"] + orig["g"]
                idx = [j for j, r in enumerate(allrows) if r.get("_ok", True)]
                ic = H.infeas_cert([allrows[j] for j in idx], e["names"], box=False) if idx else None
                if ic is not None:
                    ic = dict(ic, lam={str(idx[int(k) - 1] + 1): v for k, v in ic["lam"].items()})
                    e["infeas"] = H.strip(ic)
                elif len(idx) == len(allrows):
                    # no certificate that nothing satisfies the contract: a refusal is a violation only with a point that satisfies every row
                    fp = H.feasible_point(allrows, e["names"])
                    if fp is not None:
                        e["feas"] = H.strip(fp)
            evs.append(e)
            return
        e["ok"] = C.contract_ok(e["back"]) and C.contract_ok(orig)
        e["eqok"] = all(r.get("_eqok", True) for c_ in (e["back"], orig) for r in c_["a"] + c_["g"])
        e["names"] = sorted(C.cvars(orig) | C.cvars(e["back"]))
        if semantic and e["ok"]:
            cls = C.equiv(e["back"], orig)
            e["hints"] = C.hints_for(cls, e["names"])
        evs.append(e)

    def machine():
        md = c0.to_machine_dict()
        back = PolyhedralIoContract.from_dict(json.loads(json.dumps(md)), simplify=False)
        return back, {"exact": same_numbers(c0, back), "eq": bool(c0 == back)}

    def strings():
        sd_ = c0.to_dict()
        back = PolyhedralIoContract.from_strings(sd_["assumptions"], sd_["guarantees"], sd_["input_vars"], sd_["output_vars"], simplify=False)
        return back, {"_strings": sd_}

    def via_file(machine_rep):
        def f():
            path = os.path.join(tmpdir, "c10-%d-%d-%s.json" % (os.getpid(), case["id"], machine_rep))
            write_contracts_to_file([c0], ["c"], path, machine_representation=machine_rep)
            try:
                cs, names = read_contracts_from_file(path)
            finally:
                os.remove(path)
            if len(cs) != 1 or names != ["c"]:
                raise RuntimeError("file round trip returned %d contracts" % len(cs))
            return cs[0], {"bits": bool(machine_rep) and same_numbers(c0, cs[0])}
        return f

    def multi(machine_rep):
        """a file with SEVERAL entries: the contract under test among a second plain contract and (human form) a compound one, in an
        order that depends on the case, under names that repeat on every other case -- the entries that come back are the entries written"""
        def f():
            from pacti.contracts import PolyhedralIoContractCompound

            dup = case["id"] % 2 == 0
            items = [("c", c4, "plain"), ("c" if dup else "d", c0, "plain")]
            if not machine_rep:
                k = PolyhedralIoContractCompound.from_strings(input_vars=["ki"], output_vars=["ko"], assumptions=[["ki <= 1"], ["-ki <= -2"]], guarantees=[["ko <= 1"]])
                items.insert(case["id"] % 3, ("c" if dup and case["id"] % 4 == 0 else "k", k, "compound"))
            if case["id"] % 5 == 0:
                items = [items[-1]] + items[:-1]
            path = os.path.join(tmpdir, "c10m-%d-%d-%s.json" % (os.getpid(), case["id"], machine_rep))
            write_contracts_to_file([c for _, c, _ in items], [n for n, _, _ in items], path, machine_representation=machine_rep)
            try:
                cs, names = read_contracts_from_file(path)
            finally:
                os.remove(path)
            kinds = ["compound" if isinstance(c, PolyhedralIoContractCompound) else "plain" for c in cs]
            info = {"names_w": [n for n, _, _ in items], "names_r": [str(n) for n in names], "kinds_w": [k_ for _, _, k_ in items], "kinds_r": kinds}
            pos = [j for j, it in enumerate(items) if it[1] is c0][0]
            back = cs[pos] if pos < len(cs) and kinds[pos] == "plain" else c0
            return back, {"file": info, "bits": bool(machine_rep) and same_numbers(c0, back)}
        return f

    ev("machine-dict", p0, machine, False)
    ev("strings-exact", p4, strings, True)
    ev("file-human", p4, via_file(False), True)
    ev("file-machine", p0, via_file(True), True)
    ev("file-human-multi", p4, multi(False), True)
    ev("file-machine-multi", p0, multi(True), True)
    if case.get("only_event"):
        evs = evs[case["only_event"] - 1: case["only_event"]]
    return {"id": case["id"], "ev": evs}


def main(tier, replay=None):
    rep = Report(PROP, tier)
    rd = run_dir(PROP)
    if replay:
        with open(replay) as f:
            cases = [json.load(f)["case"]["case"]]
    else:
        res = run_tlc("Serializer", "Serializer.cfg", rd, timeout=900, gc="parallel")
        require_clean(res, "Serializer")
        rep.add_tlc(stats_of(res))
        if res["invariant_violated"]:
            print("SPEC-DRIFT property=C10 design-level invariant %s violated" % res["invariant_violated"], flush=True)
        cases = gen_cases(tier)
    for c in cases:
        c["dir"] = rd
    traces = family.pmap(run_case, cases, chunksize=2)
    verdicts = family.judge_traces(rep, "TraceSerial", "TraceSerial.cfg", traces, rd, batch=300)
    counts, nontriv, n_ev = {}, set(), 0
    by_id = {c["id"]: c for c in cases}
    for t in traces:
        for l, ev in enumerate(t["ev"], 1):
            n_ev += 1
            kind, detail = verdicts[(t["id"], l, "serial")]
            key = "%s/%s:%s" % (ev["form"], kind, detail.split(":")[0] if kind != "violation" else ":".join(detail.split(":")[:2]))
            counts[key] = counts.get(key, 0) + 1
            if kind == "ok":
                nontriv.add(digest([ev["form"], family.clean_json(ev["orig"])]))
            if kind == "malformed":
                die("C10 malformed: " + detail)
            if kind == "violation":
                case = {k: v for k, v in by_id[t["id"]].items() if k != "dir"}
                case["only_event"] = l
                rep.violation({"form": ev["form"], "law": ":".join(x for x in detail.split(":")[:2] if not x.isdigit())},
                              {"case": case, "event": family.clean_json(ev), "strings": ev.get("_strings"), "verdict": [kind, detail]})
            if l == 2 and len(rep.cov["samples"]) < 3:
                rep.sample({"form": ev["form"], "printed": ev.get("_strings"), "original_rows_rounded": opsshow(ev["orig"]), "read_back": opsshow(ev["back"]), "verdict": [kind, detail]})
    if not replay:
        from vcommon import drift_tier

        # the printer automaton of Serializer.tla, every list of <= 4 abstract terms into the real to_str_list()
        drift_tier(PROP, "printer", lambda: __import__("printdrv").conformance(rep, rd, PROP))
    shutil.rmtree(rd, ignore_errors=True)
    return rep.finish({
        "evaluations": n_ev,
        "distinct_nontrivial": len(nontriv),
        "traces_validated_against_impl": len(traces) + rep.cov.get("traces_validated_against_impl", 0),   # + lists replayed by the printer tier
        "rule": "contracts (kept unsimplified) with decimal numbers of <= 4 significant digits or arbitrary floats, opposite-term pairs (negated, equal, "
                "unrelated constants) planted before or after their partner with other rows in between; four round trips each: machine dictionary "
                "(bit-exact, ==), strings without re-simplification (multiset of rows = rows rounded to 4 significant digits), human file and machine "
                "file through the file reader (same interface, same meaning by certificates); non-trivial = judged ok",
        "verdict_counts": counts,
        "exhaustive": False,
    })


def opsshow(c):
    import rows as R

    return {"inv": c["inv"], "outv": c["outv"], "a": [R.row_str(r) for r in c["a"]], "g": [R.row_str(r) for r in c["g"]]}
