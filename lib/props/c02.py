"""C02 -- quotient composed with the divisor refines the dividend."""
import family
import gen
import ops
import opsprop
from vcommon import seed

PROP = "C02"


def gen_cases(tier):
    sd = seed()
    n = 260 if tier == "quick" else 6000
    cases = []
    for i in range(n):
        rng = family.rng_for(sd, PROP, i)
        kind = ["hidden", "hidden", "random", "hidden_rev"][i % 4]
        if i % 12 == 11:
            kind = "shared3"
        if kind == "shared3":
            # a dividend guarantee over three outputs it shares with the divisor, whose guarantees are column-heavy rows
            ys = ["v0", "v1", "v2"]
            sg = rng.choice([1, -1])
            rows, coef = gen.column_heavy_rows(rng, ys, sg)
            top = {"inv": ["u"], "outv": ys + ["o"], "a": [({"u": 1}, 5), ({"u": -1}, 5)],
                   "g": [(dict({"o": 1, "u": -1}, **{y: sg * c for y, c in coef.items()}), rng.randint(8, 14))]}
            div = {"inv": ["u"] if rng.random() < 0.5 else [], "outv": list(ys), "a": [], "g": rows + ([({ys[1]: -sg}, 0)] if rng.random() < 0.5 else [])}
            raw = {"kind": "random", "top": top, "div": div}
            cand = ["u"] + ys
            cfgs = [([], True, None), ([], False, None), ([], True, [1]), ([], False, [3, 1])]
            cases.append({"id": i + 1, "raw": raw, "cfgs": cfgs})
            continue
        if i % 24 == 4:
            # CIRCULAR: the divisor assumes a bound on a shared top-level input that the dividend's assumptions do not imply, and GUARANTEES
            # a relation between that input and one of its outputs.  Its guarantees hold only once its assumptions do: they cannot be the
            # reason why its assumptions hold.  (The quotient cannot constrain the input either: refuse, or return something sound.)
            sg = rng.choice([1, -1])
            k, c_ = rng.randint(1, 3), rng.randint(0, 3)
            top = {"inv": ["i"], "outv": ["p"], "a": [({"i": -sg}, 0)] + ([({"i": sg}, k + rng.randint(3, 9))] if rng.random() < 0.5 else []),
                   "g": [({"p": 1, "i": -1}, c_)]}
            div = {"inv": ["i"], "outv": ["o"], "a": [({"i": sg}, k)], "g": [({"i": sg, "o": -sg}, 0)] + ([({"o": sg, "i": -sg}, 0)] if rng.random() < 0.5 else [])}
            cfgs = [([], True, None), ([], False, None), ([], True, [4]), ([], False, [1, 2]), ([], True, gen.rorder(rng))]
            cases.append({"id": i + 1, "raw": {"kind": "random", "top": top, "div": div}, "cfgs": cfgs})
            continue
        if i % 24 == 16:
            # SIBLINGS: two dividend guarantees bound the same shared input from the same side; the only way to eliminate it from either is
            # the dividend's assumption (the divisor says nothing usable).  Refining each through the ORIGINAL form of the other is circular.
            sg = rng.choice([1, -1])
            hi, c_ = rng.randint(3, 6), rng.randint(8, 12)
            top = {"inv": ["y"], "outv": ["x", "z"], "a": [({"y": sg}, hi)], "g": [({"x": 1, "y": sg}, c_), ({"y": sg, "z": -1}, 0)]}
            if rng.random() < 0.5:
                top["g"].reverse()
            div = {"inv": ["y"], "outv": ["w"], "a": [], "g": [({"w": sg, "y": -sg}, 0)]}
            cfgs = [([], True, None), ([], False, None), ([], True, [1, 2]), ([], False, [2, 1]), ([], True, gen.rorder(rng))]
            cases.append({"id": i + 1, "raw": {"kind": "random", "top": top, "div": div}, "cfgs": cfgs})
            continue
        if i % 12 == 1:
            # a dividend guarantee coupling two inputs shared with the divisor; the assumptions couple them with MIXED signs, so that no
            # bound on their sum follows (tactics 1 / 3 have to check the sign of every coefficient, not only the diagonal)
            if rng.random() < 0.45:
                # ... or two OUTPUTS shared with the divisor enter the dividend's guarantee with coefficients of different magnitude (a x + b y),
                # and the divisor bounds the same combination, a multiple of it, or the one with the ratio inverted (b x + a y): tactic 3
                # replaces a x + b y by one variable and has to substitute x = (_ - b y) / a in the context, not x = (_ - (a/b) y)
                a_, b_ = rng.choice([(2, 1), (1, 2), (3, 1), (1, 3), (3, 2), (2, 3)])
                m = rng.random()
                da, db = (a_, b_) if m < 0.35 else ((2 * a_, 2 * b_) if m < 0.55 else (b_, a_))
                top = {"inv": [], "outv": ["x", "y", "o"], "a": [], "g": [({"o": 1, "x": a_, "y": b_}, rng.randint(6, 12))]}
                div = {"inv": ["k"], "outv": ["x", "y"], "a": [], "g": [({"x": da, "y": db, "k": -1}, 0)]}
                if rng.random() < 0.4:
                    div["g"].append(({"x": -da, "y": -db, "k": 1}, rng.randint(0, 3)))       # bounded from both sides
                cfgs = [([], True, None), ([], False, None), ([], True, [3]), ([], False, [3, 1]), ([], True, [1, 2, 3])]
                cases.append({"id": i + 1, "raw": {"kind": "random", "top": top, "div": div}, "cfgs": cfgs})
                continue
            k, c1_, c2_ = rng.choice([2, 3]), rng.randint(0, 2), rng.randint(0, 2)
            rows = [({"i1": 1, "i2": -1}, c1_), ({"i1": -k, "i2": 1}, c2_)]
            if rng.random() < 0.5:
                rows.reverse()
            top = {"inv": ["i1", "i2"], "outv": ["p"], "a": list(rows), "g": [({"p": 1, "i1": rng.choice([1, 2]), "i2": rng.choice([1, 2])}, rng.randint(5, 12))]}
            div = {"inv": ["i1", "i2"], "outv": ["o"], "a": list(rows), "g": [({"o": 1, "i1": -1}, 0), ({"o": -1}, 3)]}
            cfgs = [([], True, None), ([], False, None), ([], True, [1]), ([], False, [3, 1]), ([], True, [1, 2, 3])]
            cases.append({"id": i + 1, "raw": {"kind": "random", "top": top, "div": div}, "cfgs": cfgs})
            continue
        if i % 12 == 6:
            # the dividend's guarantee, once refined, is the TWIN of an assumption of the divisor (same variables and bound, the same coefficients
            # handed to other variables / one coefficient off): both have to appear in what the quotient promises
            from props import c08
            a_, b_ = rng.choice([(1, 2), (2, 1), (1, 3), (3, 2)])
            bound = rng.choice([4, 6, 3])
            r = ({"k": a_, "m": b_}, bound)                 # what "o <= bound" becomes through  o <= a k + b m
            kk = rng.random()
            tw = c08.permuted_twin(r) if kk < 0.5 else (c08.first_coefficient_twin(r) if kk < 0.8 else c08.near_twin(rng, r)[1])
            top = {"inv": ["i"], "outv": ["o"], "a": [({"i": -1}, 0), ({"i": 1}, 10)], "g": [({"o": 1}, bound)]}
            div = {"inv": ["k", "m"], "outv": ["o"], "a": [tw], "g": [({"o": 1, "k": -a_, "m": -b_}, 0)]}
            cfgs = [([], True, None), ([], False, None), ([], True, gen.rorder(rng))]
            cases.append({"id": i + 1, "raw": {"kind": "random", "top": top, "div": div}, "cfgs": cfgs})
            continue
        if i % 12 == 8:
            # a dividend guarantee with a NEGATIVELY signed shared variable that is bounded only through a chain over a second shared variable
            # (tactic 4 has to recurse, and to restore the sign on the way back)
            lo, hi = rng.randint(1, 3), rng.randint(20, 100)
            sg = rng.choice([1, 1, -1])
            # dividend: in i, out r, o -- assumes lo <= i <= hi, guarantees r - sg*o <= c;  divisor: in i, k, out o -- assumes sg*k <= sg*i, guarantees sg*i <= sg*o
            top = {"inv": ["i"], "outv": ["r", "o"], "a": [({"i": -1}, -lo), ({"i": 1}, hi)], "g": [({"r": 1, "o": -sg}, rng.randint(2, 6))]}
            div = {"inv": ["i", "k"], "outv": ["o"], "a": [({"k": sg, "i": -sg}, 0)], "g": [({"i": sg, "o": -sg}, 0)]}
            cfgs = [([], True, None), ([], False, None), ([], True, [4]), ([], False, [4, 1, 2])]
            cases.append({"id": i + 1, "raw": {"kind": "random", "top": top, "div": div}, "cfgs": cfgs})
            continue
        if i % 12 == 10:
            # coefficients six orders of magnitude apart inside one substituted term (512 against 2^-11): the small one is no residue
            K, e = rng.choice([512, 256]), rng.choice([2.0**-11, 2.0**-12])
            top = {"inv": ["w"], "outv": ["y"], "a": [], "g": [({"y": 1, "w": -K}, 0)]}
            div = {"inv": ["u"], "outv": ["y"], "a": [], "g": [({"y": -1}, 0), ({"y": 1, "u": -e}, 0)]}
            if rng.random() < 0.5:
                top["g"].append(({"w": -1}, 3))
            cfgs = [([], True, None), ([], False, None), ([], True, gen.rorder(rng))]
            cases.append({"id": i + 1, "raw": {"kind": "random", "top": top, "div": div}, "cfgs": cfgs})
            continue
        if i % 12 == 2:
            # a dividend guarantee parallel to the divisor's but TIGHTER by a constant: refining it cancels every variable and leaves 0 <= -d,
            # an impossible requirement, which must not be taken for "no requirement" (simplify off; the shared variable kept, or tactic 4 alone)
            d_ = rng.choice([1, 2, 3])
            base = rng.randint(0, 3)
            if rng.random() < 0.5:
                top = {"inv": ["x"], "outv": ["y", "w"], "a": [], "g": [({"y": 1, "x": -1}, base), ({"w": 1, "x": -1}, 0)]}
                div = {"inv": ["x"], "outv": ["y"], "a": [], "g": [({"y": 1, "x": -1}, base + d_)]}
                cfgs = [(["x"], False, None), (["x"], True, None), ([], False, [4]), (["x"], False, [4, 1])]
            else:
                top = {"inv": [], "outv": ["y", "w"], "a": [], "g": [({"y": 1}, base), ({"w": 1}, 1)]}
                div = {"inv": ["u"], "outv": ["y"], "a": [], "g": [({"y": 1}, base + d_)]}
                cfgs = [([], False, [4]), ([], False, None), ([], True, [4]), ([], False, [1, 4])]
            cases.append({"id": i + 1, "raw": {"kind": "random", "top": top, "div": div}, "cfgs": cfgs})
            continue
        if i % 12 == 7:
            # the divisor reads a variable v that is NOT a top-level input (the quotient has to drive it) and assumes something about v alone;
            # its other assumptions follow from the dividend's; its guarantee relaxes non-trivially onto the quotient's inputs
            hi = rng.randint(1, 3)
            k = rng.choice([1, 2, 3])
            top = {"inv": ["i"], "outv": ["p"], "a": [({"i": -1}, 0), ({"i": 1}, hi)], "g": [({"p": 1, "i": -k}, rng.randint(0, 2))]}
            div = {"inv": ["i", "v"], "outv": ["o"], "a": [({"i": -1}, 0), ({"i": 1}, hi + rng.randint(0, 2)), ({"v": -1}, 0), ({"v": 1}, rng.randint(2, 4))],
                   "g": [({"o": 1, "i": -k}, 0)] + ([({"o": -1, "v": -1}, 5)] if rng.random() < 0.4 else [])}
            if rng.random() < 0.5:
                div["a"].reverse()
            cfgs = [([], True, None), ([], False, None), ([], True, gen.rorder(rng)), (["v"], True, None)]
            cases.append({"id": i + 1, "raw": {"kind": "random", "top": top, "div": div}, "cfgs": cfgs})
            continue
        if i % 12 == 3:
            # the dividend's assumptions CONTRADICT the divisor's on a shared input, and the dividend's guarantees mention no shared variable
            lo = rng.randint(3, 6)
            top = {"inv": ["x"], "outv": ["o"], "a": [({"x": -1}, -lo), ({"x": 1}, lo + rng.randint(2, 5))], "g": [({"o": 1}, rng.randint(1, 4))]}
            div = {"inv": ["x"], "outv": ["y"], "a": [({"x": 1}, lo - rng.randint(2, 3))], "g": [({"y": 1, "x": -1}, 0)]}
            cfgs = [([], True, None), ([], False, None), ([], True, gen.rorder(rng))]
            cases.append({"id": i + 1, "raw": {"kind": "random", "top": top, "div": div}, "cfgs": cfgs})
            continue
        if i % 12 in (5, 9):
            # a dividend guarantee over two inputs it shares with the divisor; the assumptions meet in one point (degenerate LP optimum
            # for tactic 5, which is tried first)
            a = {v: rng.choice([1, 2, 3]) * rng.choice([1, 1, 1, -1]) for v in ("y", "z")}
            if rng.random() < 0.5:
                a = {"y": 1, "z": 1}
            if rng.random() < 0.4:
                # a chain  y <= z <= K  shared by both, the divisor adds  y <= m <= K: three rows are active at the optimum of y + z, and the
                # first pair in list order has multipliers (2, -1)
                K, a_ = rng.choice([1, 2, 3]), rng.choice([1, 2])
                rows = [({"y": 1, "z": -1}, 0), ({"z": 1}, K)]
                top = {"inv": ["y", "z"], "outv": ["o"], "a": list(rows), "g": [({"o": 1, "y": a_, "z": a_}, rng.randint(6, 12))]}
                div = {"inv": ["y", "z"], "outv": ["m"], "a": list(rows), "g": [({"y": 1, "m": -1}, 0), ({"m": 1}, K)]}
                cfgs = [([], False, [5]), ([], False, [5, 1, 2, 3, 4]), ([], True, [5, 2]), ([], True, [5, 1, 2, 3, 4])]
                cases.append({"id": i + 1, "raw": {"kind": "random", "top": top, "div": div}, "cfgs": cfgs})
                continue
            rows, px = gen.degenerate_rows(rng, ["y", "z"], None, with_point=True)
            top = {"inv": ["y", "z"], "outv": ["o"], "a": rows, "g": [(dict(a, o=rng.choice([1, 2])), rng.randint(2, 10))]}
            # the divisor's guarantees pass through the same point and mention a variable the quotient keeps
            v = rng.choice(["y", "z"])
            div = {"inv": ["y", "z"], "outv": ["m"], "a": list(rows), "g": [({v: 1, "m": -1}, 0), ({"m": 1}, px[v] + rng.choice([0, 0, 1]))]}
            try:
                gen.mk_contract(top)
                gen.mk_contract(div)
            except ValueError:
                continue
            cfgs = [([], False, [5]), ([], False, [5, 1, 2, 3, 4]), ([], True, [5, 2]), ([], True, [5])]
            cases.append({"id": i + 1, "raw": {"kind": "random", "top": top, "div": div}, "cfgs": cfgs})
            continue
        if kind.startswith("hidden"):
            schema = rng.choice(["cascade", "casc_shared", "casc_extra", "fanout", "shared", "cascade_rev", "indep"])
            pr = gen.build_pair(rng, schema, dyadic=0.1 if i % 9 == 0 else 0.0)
            if pr is None:
                continue
            d1, d2, swap = pr
            raw = {"kind": kind, "d1": d1, "d2": d2, "swap": swap, "keep": rng.choice(gen.keep_choices(rng, d1, d2)[:2])}
            cand = d1["outv"] + d2["outv"] + d1["inv"] + d2["inv"]
        else:
            # unrelated dividend / divisor over compatible interfaces
            top = gen.contract_raw(rng, ["i", "s"], ["p", "o"][: rng.randint(1, 2)], band=0.5)
            div = gen.contract_raw(rng, rng.choice([["i"], ["i", "s"], ["s"]]), rng.choice([["y"], ["y", "o"], ["o"]]), band=0.5)
            try:
                gen.mk_contract(top)
                gen.mk_contract(div)
            except ValueError:
                continue
            raw = {"kind": kind, "top": top, "div": div}
            cand = top["inv"] + div["outv"] + top["outv"]
        cfgs = [([], True, None), ([], False, gen.rorder(rng))]
        for _ in range(2 if tier == "quick" else 5):
            cfgs.append((rng.sample(cand, rng.randint(1, min(2, len(cand)))), rng.random() < 0.6, gen.rorder(rng)))
        cases.append({"id": i + 1, "raw": raw, "cfgs": cfgs})
    return cases


def operands(raw):
    """(dividend, divisor) or None when the hidden composition does not exist."""
    if raw["kind"] == "random":
        return gen.mk_contract(raw["top"]), gen.mk_contract(raw["div"])
    c1, c2 = gen.mk_contract(raw["d1"]), gen.mk_contract(raw["d2"])
    a, b = (c2, c1) if raw["swap"] else (c1, c2)
    try:
        top = a.compose(b, raw["keep"])
    except ValueError:
        return None
    return top, (c2 if raw["kind"] == "hidden_rev" else c1)


def run_case(case):
    evs = []
    for j, (addl, simp, order) in enumerate(case["cfgs"], 1):
        if case.get("only_event") and case["only_event"] != j:
            continue
        pr = operands(case["raw"])
        if pr is None:
            break
        top, div = pr
        evs.append(ops.ev_quotient(top, div, addl, simp, order, ["sound", "itf"]))
    return {"id": case["id"], "ev": evs}


def main(tier, replay=None):
    return opsprop.run(
        PROP, tier, gen_cases(tier), run_case,
        "one trace per (dividend, divisor): dividends built by composing the divisor with a hidden partner (quotient exists), "
        "or unrelated; one event per (additional_inputs, simplify, tactics_order); non-trivial = quotient returned; distinct by digest",
        replay=replay, design=("Alg_quotient_quick.cfg", "Alg_quotient.cfg"),
        nontrivial=lambda ev: ev["exc"] == "none",
    )
