"""C07 -- simplification never changes meaning and leaves nothing redundant."""
import family
import gen
import lpev
from props.c08 import near_twin, print_twin, scaled, weakened
from vcommon import seed

PROP = "C07"


def comb(rng, rows, slack):
    """positive combination of 2 rows plus slack"""
    r1, r2 = rng.sample(rows, 2) if len(rows) >= 2 else (rows[0], rows[0])
    l1, l2 = rng.randint(1, 2), rng.randint(1, 2)
    co = {}
    for (c_, _), l in ((r1, l1), (r2, l2)):
        for v, a in c_.items():
            co[v] = co.get(v, 0) + l * a
    co = {v: a for v, a in co.items() if a != 0}
    if not co:
        return None
    return (co, l1 * r1[1] + l2 * r2[1] + slack)


def gen_case(rng, i):
    nv = rng.choice([2, 3, 3, 4, 5])
    vs = gen.VARS6[6 - nv:]
    dy = 0.15 if i % 7 == 0 else 0.0
    base = [gen.rrow(rng, vs, nmax=min(3, nv), dyadic=dy, posbias=0.8) for _ in range(rng.randint(1, 4))]
    ctx = [gen.rrow(rng, vs, nmax=2, dyadic=dy, posbias=0.8) for _ in range(rng.randint(0, 2))]
    S = list(base)
    shape = i % 11
    pool = base + ctx
    if shape == 0:
        S.append(rng.choice(base))                      # exact duplicate
    elif shape == 1:
        S.append(scaled(rng.choice(base), rng.choice([2, 3, 0.5])))
    elif shape == 2:
        r = comb(rng, pool, rng.choice([0, 0, 2.0**-10, 1]))
        if r:
            S.append(r)
    elif shape == 3 and ctx:
        S.append(weakened(rng.choice(ctx), rng.choice([0, 1])))   # implied only through the context
    elif shape == 4:
        r = rng.choice(base)                            # same left side, different bounds, any order
        S.insert(rng.randint(0, len(S)), weakened(r, rng.choice([1, 2])))
    elif shape == 5:
        two = [r for r in base if len(r[0]) >= 2 and all(float(a).is_integer() for a in r[0].values())]
        if two:
            r = rng.choice(two)
        else:                                                # the twin must involve two variables (see near_twin)
            r = ({vs[0]: rng.choice([1, -2, 3]), vs[-1] if nv > 1 else "q": rng.choice([-1, 2])}, 0)
            S.append(r)
        b, twin = near_twin(rng, r)
        S[S.index(r)] = b
        if rng.random() < 0.5:
            S.append(twin)                                   # nearly equal, not implied
        else:
            ctx.append(twin)                                 # a near twin of a list row sits in the context
    elif shape == 6:
        # planted contradiction: r and its negation pushed apart
        r = rng.choice(base)
        S.append(({v: -a for v, a in r[0].items()}, -r[1] - rng.choice([1, 2, 2.0**-7])))
    rng.shuffle(S)
    S = S[:6]
    if shape == 10:
        # one row whose coefficients are more than eight orders of magnitude apart (9000 against 0.00008): too wide for the certificates,
        # but whatever comes back must still be a SELECTION of the given rows, which can be compared exactly
        big, small = rng.choice([9000, 4000, 12000]), rng.choice([0.00008, 0.00004, 0.0001])
        S = [({vs[0]: big, vs[1]: small * rng.choice([1, -1])}, 0), gen.rrow(rng, vs, nmax=2)]
        if rng.random() < 0.5:
            S.reverse()
        return {"S": S, "ctx": [gen.rrow(rng, vs, nmax=1)] if rng.random() < 0.5 else []}
    if shape == 9:
        # coefficients of very different magnitude (within 1 .. 3*10^5): an opposite pair over (i, o) and a row over (i, j).  The LP that asks
        # whether the third row is redundant is bounded by that row itself, yet the solver's presolve often calls it unbounded
        a, b, B = rng.choice([1, 1.5, 2, 3]), rng.choice([1e5, 3e5, 2e5]), rng.choice([1, 10, 300100, 1000, 5])
        c_, d_, C_ = rng.choice([1e5, 1e4, 5e4]), rng.choice([250, 1, 40, 1000, 0.5]), rng.choice([99960, 10, 1, 1000])
        vi, vo, vj = vs[0], vs[1], (vs[2] if nv > 2 else "q")
        trap = [({vi: a, vo: -b}, B), ({vi: -a, vo: b}, B), ({vi: -c_, vj: d_} if rng.random() < 0.5 else {vi: -c_, vj: d_}, C_)]
        return {"S": trap, "ctx": []}
    if shape == 8:
        # a row of the list stands word for word in the context and is listed FIRST, so that leaving it out changes the
        # order in which the remaining rows introduce their variables (the next row mentions that variable last)
        v1, v2 = rng.sample(vs, 2)
        r = ({v1: rng.choice([1, -1, 2])}, rng.randint(0, 4))
        nxt = ({v2: rng.choice([1, -1, 3]), v1: rng.choice([2, -2, 1])}, rng.randint(0, 5))
        ctx.insert(rng.randint(0, len(ctx)), r)
        S = [r, nxt] + S[:4]
    if shape == 7:
        # a row without variables (what is left of  x + 1 <= x): vacuous when its constant is >= 0, a contradiction otherwise;
        # first, last or anywhere, in the list or in the context
        free = ({}, rng.choice([-1, -2, -0.5, 0, 1, 3]))
        if rng.random() < 0.3:
            # nothing but rows without variables, one of them reading 0 <= 0 (true, if only just)
            S = [({}, 0)] + [({}, rng.choice([0, 1, 2])) for _ in range(rng.randint(0, 2))]
            rng.shuffle(S)
            return {"S": S, "ctx": [({}, rng.choice([0, 3]))] if rng.random() < 0.5 else []}
        where = rng.choice(["first", "first", "last", "any", "ctx"])
        if where == "ctx":
            ctx.insert(rng.randint(0, len(ctx)), free)
        else:
            S = S[:5]
            S.insert({"first": 0, "last": len(S), "any": rng.randint(0, len(S))}[where], free)
    return {"S": S, "ctx": ctx}


def gen_cases(tier):
    sd = seed()
    n = 500 if tier == "quick" else 15000
    out = []
    for i in range(n):
        rng = family.rng_for(sd, PROP, i)
        c = gen_case(rng, i)
        c["id"] = i + 1
        c["via"] = ["list", "list", "contract", "noctx"][i % 4]
        if i % 6 == 1:
            c["pre_elim"] = True     # the same list goes through an elimination first (same process): nothing may be remembered wrongly
        if i % 5 == 0:
            tw = print_twin(rng, c["S"])        # a second call in the same process on a list that prints identically
            if tw:
                c["twin"] = tw
        out.append(c)
    return out


def pre_eliminate(case):
    """eliminate each variable of the list by relaxing, in the context, and throw the results away"""
    from pacti.iocontract import Var

    ctx = gen.mk_list(case["ctx"] if case["via"] != "noctx" else [])
    # the list with one more (implied) row, whose simplification is the list of the event, then the list itself
    for rows in (case["S"] + [weakened(r, 1) for r in case["S"][:1] if r[0]], case["S"]):
        tl = gen.mk_list(rows)
        for v in sorted({str(x) for x in tl.vars}):
            for simp in (True, False):
                try:
                    tl.elim_vars_by_relaxing(ctx, [Var(v)], simplify=simp)
                except ValueError:
                    pass


def run_case(case):
    via = case["via"]
    if case.get("pre_elim"):
        pre_eliminate(case)
    if via == "noctx":
        ev = lpev.ev_simplify(case["S"], [], "list", with_ctx=False)
    else:
        ev = lpev.ev_simplify(case["S"], case["ctx"], via)
    evs = [ev]
    if case.get("pre_elim") and ev["exc"] == "none":
        # simplifying the simplified list again (idempotence, and a list the earlier elimination has seen in its closing step)
        ctx_l = gen.mk_list([] if via == "noctx" else case["ctx"])
        try:
            again = gen.mk_list(case["S"]).simplify(ctx_l if via != "noctx" else None)
            raw = [({str(v): float(a) for v, a in t.variables.items()}, float(t.constant)) for t in again.terms]
            evs.append(lpev.ev_simplify(raw, [] if via == "noctx" else case["ctx"], "list", with_ctx=via != "noctx"))
        except ValueError:
            pass
    if case.get("twin"):
        evs.append(lpev.ev_simplify(case["twin"], [] if via == "noctx" else case["ctx"], "list", with_ctx=via != "noctx"))
    return {"id": case["id"], "ev": evs}


def main(tier, replay=None):
    return lpev.run(
        PROP, tier, gen_cases(tier), run_case,
        "(list, context) with <= 6 rows over <= 5 variables and planted redundancy: duplicates, scalings, positive combinations "
        "(slack 0, 2^-10, 1), rows implied only through the context, same left side with different bounds in any position, "
        "near twins (integer rows scaled by 10^5, one coefficient off by one), contradictions, rows without variables (vacuous or contradictory) in any position, a row standing word for word in the context and listed first, an elimination on the same list before the call, rows of very different magnitude on which the solver's presolve misreports the redundancy LP, a second call on a list that prints identically (one coefficient larger by 2^-14 of itself); through TermList.simplify with/without context and through contract "
        "construction; non-trivial = simplification returned and dropped at least one row, or raised on an infeasible system",
        owner=lambda ev: PROP, replay=replay,
        extra=lambda rep, rd: __import__("lpalgo").conformance(rep, rd, PROP, {"reduce"}, 200 if tier == "quick" else 4000, seed()),
        nontrivial=lambda ev, kind, detail: kind == "ok" and (len(ev["R"]) < len(ev["S"]) or ev["exc"] != "none"),
    )
