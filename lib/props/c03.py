"""C03 -- refinement tests decide semantic containment exactly."""
import family
import gen
import lpev
from props.c07 import comb
from props.c08 import first_coefficient_twin, near_twin, permuted_twin, print_twin, scaled, weakened
from vcommon import seed

PROP = "C03"
FAMS = ["reflexive", "sublist", "combination", "scaled", "equal_bounds", "infeasible_left", "empty_right",
        "separated", "feasible_vs_infeasible", "empty_left", "random", "contract_weaken", "contract_under_assumptions",
        "contract_itf", "membership", "print_twin", "huge_constant", "contract_infeasible_side", "infeasible_left_disconnected", "contract_twin"]


def feasible_list(rng, vs, n, dy=0.0):
    """rows satisfied (with room) by a planted integer point"""
    pt = {v: rng.randint(-3, 3) for v in vs}
    out = []
    for _ in range(n):
        co, _ = gen.rterm_raw(rng, vs, nmax=min(3, len(vs)), dyadic=dy)
        lhs = sum(a * pt[v] for v, a in co.items())
        out.append((co, lhs + rng.choice([0, 0, 1, 2, 0.5 if dy else 1])))
    return out, pt


def gen_case(rng, i):
    fam = FAMS[i % len(FAMS)]
    nv = rng.choice([1, 2, 3, 3, 4, 5])
    vs = gen.VARS6[6 - nv:]
    dy = 0.2 if i % 5 == 0 else 0.0
    L, pt = feasible_list(rng, vs, rng.randint(1, 4), dy)
    c = {"fam": fam, "kind": "list"}
    if fam == "reflexive":
        c.update(L=L, R=list(L))
    elif fam == "sublist":
        c.update(L=L, R=rng.sample(L, rng.randint(1, len(L))))
    elif fam == "combination":
        Rr = [r for r in (comb(rng, L, rng.choice([0, 0, 1])) for _ in range(rng.randint(1, 3))) if r]
        c.update(L=L, R=Rr or list(L))
    elif fam == "scaled":
        c.update(L=L, R=[scaled(r, rng.choice([2, 3, 0.5])) for r in L])
    elif fam == "equal_bounds":
        c.update(L=L + [rng.choice(L)], R=[weakened(r, 0) for r in L])
    elif fam == "infeasible_left":
        r = rng.choice(L)
        c.update(L=L + [({v: -a for v, a in r[0].items()}, -r[1] - rng.choice([1, 2]))], R=gen.rlist_raw(rng, vs, 1, 3))
    elif fam == "infeasible_left_disconnected":
        # the left side is unsatisfiable, but only in variables that nothing links to the right side's: it still refines everything
        k = rng.choice([1, 2])
        r_ = rng.random()
        bad = [({"q": 1}, 0), ({"q": -1}, -k)] if r_ < 0.4 else ([({"q": 1, "r": 1}, 0), ({"q": -1, "r": -1}, -k)] if r_ < 0.7 else [({}, -k)])   # or a row without variables: 0 <= -k
        Ld = L + bad
        rng.shuffle(Ld)
        c.update(L=Ld, R=gen.rlist_raw(rng, vs, 1, 2) if rng.random() < 0.5 else ([weakened(rng.choice(L), -3)] if rng.random() < 0.5 else [({"t": 1}, 3)]))   # or a right side over a variable the left never mentions
    elif fam == "empty_right":
        c.update(L=L, R=[])
    elif fam == "separated":
        # a right row that the planted point of the left side violates by at least 1
        co, _ = gen.rterm_raw(rng, vs, nmax=min(2, nv))
        lhs = sum(a * pt[v] for v, a in co.items())
        c.update(L=L, R=rng.sample(L, rng.randint(0, len(L))) + [(co, lhs - rng.choice([1, 2, 5]))])
    elif fam == "feasible_vs_infeasible":
        r = rng.choice(L)
        c.update(L=L, R=[r, ({v: -a for v, a in r[0].items()}, -r[1] - rng.choice([1, 3]))])
    elif fam == "empty_left":
        c.update(L=[], R=gen.rlist_raw(rng, vs, 1, 2))
    elif fam == "random":
        c.update(L=L, R=gen.rlist_raw(rng, vs, 1, 3))
    elif fam == "print_twin":
        # the question asked twice in one process, the second time about a list that PRINTS identically (one coefficient larger
        # by 2^-14 of itself: up to 0.06 apart inside the box) -- whatever is remembered under a printed form confuses the two
        tw = print_twin(rng, L) or L
        c.update(kind="list_seq", seq=[(L, L), (tw, L), (L, tw), (tw, tw)])
    elif fam == "huge_constant":
        # a bound of 10^6 on a variable of its own (vacuous inside the box) next to a containment that fails by 2^-11:
        # the size of unrelated data must not widen the comparison
        v = vs[0]
        small = ({v: rng.choice([1, -1])}, rng.choice([0, 1, 2]))
        big = ({"q": rng.choice([1, -1])}, 10**6)
        Lh = [small, big] if rng.random() < 0.5 else [big, small]
        c.update(L=Lh, R=[weakened(small, -2.0**-11)] + ([big] if rng.random() < 0.5 else []))
    elif fam.startswith("contract"):
        inv, outv = vs[: max(1, nv // 2)], vs[max(1, nv // 2):] or ["o"]
        a1, p1 = feasible_list(rng, inv, rng.randint(1, 2))
        g1, _ = feasible_list(rng, inv + outv, rng.randint(1, 3))
        c1 = {"inv": inv, "outv": outv, "a": a1, "g": g1}
        if fam == "contract_weaken":
            # weaker guarantees / stronger assumptions on the right: c1 <= c2 must hold; and the converse direction
            c2 = {"inv": list(inv), "outv": list(outv), "a": a1 + [weakened(a1[0], -rng.choice([0, 1]))], "g": [weakened(r, rng.choice([0, 1])) for r in g1]}
            if rng.random() < 0.3:
                c2["inv"] = list(reversed(c2["inv"]))
        elif fam in ("contract_under_assumptions", "contract_twin"):
            if fam == "contract_twin":
                # the assumption that is used has two variables with different coefficients, so that it HAS twins
                if len(inv) < 2:
                    inv = inv + ["q2"]
                a1 = [({inv[0]: rng.choice([1, 2, -1]), inv[1]: rng.choice([3, -2, 4])}, rng.randint(0, 3))] + a1[:1]
                c1 = dict(c1, inv=list(inv), a=list(a1))
            # guarantee inclusion that holds only under the right side's assumptions: G2 = G1 + a2-row
            extra = a1[0]
            g2 = [({v: g1[0][0].get(v, 0) + extra[0].get(v, 0) for v in set(g1[0][0]) | set(extra[0])}, g1[0][1] + extra[1])]
            g2 = [({v: a for v, a in g2[0][0].items() if a != 0}, g2[0][1])]
            c2 = {"inv": list(inv), "outv": list(outv), "a": list(a1), "g": g2 if g2[0][0] else list(g1)}
            c1 = dict(c1, a=[])  # left assumes nothing: weaker assumptions
            if fam == "contract_twin" or rng.random() < 0.3:
                # the left side also guarantees a TWIN of the right side's assumption (same variables and bound; coefficients exchanged, or the
                # first one changed, or one off by 10^-5 of itself): a different constraint, the assumption itself must still be used
                k_ = rng.random()
                tw = permuted_twin(extra) if k_ < 0.4 else (first_coefficient_twin(extra) if k_ < 0.7 else None)
                if tw is None:
                    base, tw = near_twin(rng, extra)
                    c2["a"] = [base] + list(a1[1:])
                    c2["g"] = [({v: g1[0][0].get(v, 0) + base[0].get(v, 0) for v in set(g1[0][0]) | set(base[0])}, g1[0][1] + base[1])]
                    c2["g"] = [({v: a for v, a in c2["g"][0][0].items() if a != 0}, c2["g"][0][1])] if any(c2["g"][0][0].values()) else list(g1)
                c1 = dict(c1, g=[tw] + list(g1))
        elif fam == "contract_infeasible_side":
            # one side cannot be satisfied at all: guarantees that contradict each other on the left (the assumption condition still has
            # to hold: here it does not, the left assumes strictly more), or assumptions that contradict each other on the right
            r = g1[0]
            bad = [r, ({v: -x for v, x in r[0].items()}, -r[1] - rng.choice([1, 2]))]
            if rng.random() < 0.6:
                c1 = dict(c1, a=a1 + [weakened(a1[0], -rng.choice([1, 2]))], g=bad)
                c2 = {"inv": list(inv), "outv": list(outv), "a": list(a1), "g": list(g1)}
            else:
                ra = a1[0]
                c2 = {"inv": list(inv), "outv": list(outv), "a": [ra, ({v: -x for v, x in ra[0].items()}, -ra[1] - 1)], "g": list(g1)}
        elif fam == "contract_itf" and rng.random() < 0.45:
            # the SAME variables with another split between inputs and outputs: not comparable either
            if len(outv) > 1 or rng.random() < 0.5:
                c2 = {"inv": inv + outv[:1], "outv": outv[1:], "a": list(a1), "g": list(g1)}          # an output read as an input on the right
            else:
                free = [v for v in inv if not any(v in co for co, _ in a1)]
                c2 = {"inv": [v for v in inv if v not in free[:1]], "outv": outv + free[:1], "a": list(a1), "g": list(g1)} if free else \
                     {"inv": inv + outv[:1], "outv": outv[1:], "a": list(a1), "g": list(g1)}
        else:
            c2 = {"inv": inv + ["q"], "outv": list(outv), "a": list(a1), "g": list(g1)} if rng.random() < 0.5 else \
                 {"inv": list(inv), "outv": outv + ["q"], "a": list(a1), "g": list(g1)}
        c.update(kind="contract", c1=c1, c2=c2, how=rng.choice(["refines", "le"]), rev=rng.random() < 0.4)
    else:  # membership
        inv, outv = vs[: max(1, nv // 2)], vs[max(1, nv // 2):] or ["o"]
        a1, _ = feasible_list(rng, inv, rng.randint(1, 2))
        g1, _ = feasible_list(rng, inv + outv, rng.randint(1, 3))
        which = rng.choice(["env", "impl"])
        if which == "env":
            comp = a1 + [weakened(a1[0], -1)] if rng.random() < 0.5 else [weakened(r, 1) for r in a1]
        else:
            comp = g1 + gen.rlist_raw(rng, inv + outv, 0, 1) if rng.random() < 0.5 else [weakened(r, 1) for r in g1]
        c.update(kind="member", c={"inv": inv, "outv": outv, "a": a1, "g": g1}, comp=comp, which=which)
    return c


def exhaustive_pairs(stride):
    """bounded-exhaustive sub-family: 2 variables, coefficients -1..1, constants -2..2, <= 2 rows a side
    (672 400 ordered pairs); every stride-th pair is taken"""
    import itertools

    rows = [({v: a for v, a in (("x", a), ("y", b)) if a}, c) for a in (-1, 0, 1) for b in (-1, 0, 1) if (a, b) != (0, 0) for c in (-2, -1, 0, 1, 2)]
    lists = [[r] for r in rows] + [[r, s] for r, s in itertools.combinations(rows, 2)]
    k = 0
    for L in lists:
        for R_ in lists:
            k += 1
            if k % stride == 0:
                yield {"fam": "exhaustive2", "kind": "list", "L": L, "R": R_}


def gen_cases(tier):
    sd = seed()
    n = 1500 if tier == "quick" else 40000
    out = []
    for i in range(n):
        c = gen_case(family.rng_for(sd, PROP, i), i)
        c["id"] = i + 1
        out.append(c)
    if tier == "thorough":
        for c in exhaustive_pairs(17 + sd % 5):
            c["id"] = len(out) + 1
            out.append(c)
    return out


def run_case(case):
    if case["kind"] == "list":
        evs = [lpev.ev_refines(case["L"], case["R"], case["fam"])]
    elif case["kind"] == "list_seq":
        evs = [lpev.ev_refines(a, b, case["fam"]) for a, b in case["seq"]]
    elif case["kind"] == "contract":
        a, b = (case["c2"], case["c1"]) if case["rev"] else (case["c1"], case["c2"])
        evs = [lpev.ev_crefines(a, b, case["how"])]
    else:
        evs = [lpev.ev_membership(case["c"], case["comp"], case["which"])]
    return {"id": case["id"], "ev": evs}


def main(tier, replay=None):
    return lpev.run(
        PROP, tier, gen_cases(tier), run_case,
        "pairs generated with their ground truth by construction (reflexive, sub-list, positive combination, scaling, equal bounds, "
        "infeasible left, empty right, separated by >= 1 from a planted point, feasible vs infeasible, empty left, unrelated; contracts: "
        "weakened / under the right side's assumptions / different interfaces; environment and implementation membership; the same question "
        "again about a list that prints identically; a vacuous bound of 10^6 next to a containment failing by 2^-11); truth is "
        "established by TLC from exact box-free Farkas certificates or a witness point; non-trivial = truth established and answer agrees",
        owner=lambda ev: PROP, replay=replay,
        extra=lambda rep, rd: __import__("lpalgo").conformance(rep, rd, PROP, {"refines", "is_empty"}, 240 if tier == "quick" else 4800, seed()),
        nontrivial=lambda ev, kind, detail: kind == "ok",
        sig_of=lambda ev, detail: {"family": ev.get("_tag", "")},
    )
