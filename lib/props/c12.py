"""C12 -- optimisation over a contract returns the true optimum, None iff unbounded."""
import family
import gen
import lpev
from props.c03 import feasible_list
from vcommon import seed

PROP = "C12"


def gen_case(rng, i):
    nv = rng.choice([1, 2, 3, 4, 5])
    vs = gen.VARS6[6 - nv:]
    inv, outv = vs[: max(1, nv // 2)], vs[max(1, nv // 2):]
    shape = ["bounded", "bounded", "halfopen", "random", "infeasible", "free_var", "empty", "disconnected_infeasible",
             "presolve_trap", "vacuous_row", "near_equal_bounds", "print_twin", "huge_coefficient"][i % 13]
    if i % 13 == 1 and (i // 13) % 2 == 1:
        shape = "near_parallel"          # every other "bounded" slot
    if shape == "presolve_trap":
        nv = 3
        vs = gen.VARS6[3:]
        inv, outv = vs[:1], vs[1:]
    a, g = [], []
    if shape == "bounded":
        a = gen.bounded_list_raw(rng, inv)
        g = gen.bounded_list_raw(rng, outv) + gen.rlist_raw(rng, vs, 0, 2)
    elif shape == "halfopen":
        a = [({v: 1}, rng.randint(0, 4)) for v in inv]
        g, _ = feasible_list(rng, vs, rng.randint(1, 3))
    elif shape == "print_twin":
        a = gen.bounded_list_raw(rng, inv)
        g = gen.bounded_list_raw(rng, outv) + gen.rlist_raw(rng, vs, 0, 1)
    elif shape == "random":
        a, _ = feasible_list(rng, inv, rng.randint(0, 2))
        g, _ = feasible_list(rng, vs, rng.randint(1, 3))
    elif shape == "infeasible":
        g, _ = feasible_list(rng, vs, rng.randint(1, 3))
        r = rng.choice(g)
        g = g + [({v: -x for v, x in r[0].items()}, -r[1] - rng.choice([1, 2]))]
    elif shape == "free_var":
        # a declared variable that no constraint mentions
        a = gen.bounded_list_raw(rng, inv[:1])
        g = gen.bounded_list_raw(rng, outv[:1]) if outv else []
    elif shape == "empty":
        a, g = [], []
    elif shape == "presolve_trap":
        # x - s <= -a, -x <= b, -x + s <= c with s a positive combination of two outputs: s is unbounded above, and on this
        # shape the solver's presolve often reports "infeasible" first, so the second solve is what answers
        x, y, z = vs
        s1, s2, sg = rng.choice([1, 2]), rng.choice([1, 2]), rng.choice([1, -1])
        lo = rng.randint(-3, 3)
        g = [({x: 1, y: -sg * s1, z: -sg * s2}, -lo), ({x: -1}, rng.randint(0, 3)), ({x: -1, y: sg * s1, z: sg * s2}, lo + rng.randint(0, 4))]
        rng.shuffle(g)
        if rng.random() < 0.5:
            inv, outv = [x], rng.sample([y, z], 2)
        k = rng.randint(1, 3)
        trap = {y: k * s1 * sg, z: k * s2 * sg}
    elif shape == "near_equal_bounds":
        # the assumptions bound a variable by B + d, the guarantees by B, with d/B <= 1e-5: different constraints, and the tighter
        # one decides the optimum
        B = rng.choice([100000, 200000, 500000])
        d = B // 100000
        v, sg = inv[0], rng.choice([1, -1])
        a = [({v: sg}, B + d)] + ([({v: -sg}, 5)] if rng.random() < 0.5 else [])
        g = [({v: sg}, B)] + (gen.bounded_list_raw(rng, outv) if outv else [])
        near = ({v: sg}, True, "contract")
    elif shape == "huge_coefficient":
        # a row whose dominant coefficient is NEGATIVE and beyond 10^6 (a lower bound written at a huge scale): rescaling a row must keep its direction
        K = rng.choice([1500000, 1200000, 2000000])
        v = inv[0]
        lo = rng.choice([1, 2, 3])
        a = [({v: -K}, -lo), ({v: 1}, rng.randint(5, 10))]          # v >= lo/K (about 10^-6),  v <= 5..10
        g = gen.bounded_list_raw(rng, outv) if outv else []
        huge = ({v: 1}, True, "contract")
    elif shape == "near_parallel":
        # two NEARLY PARALLEL rows  x + y <= t + 1  and  x + (1 - e) y >= t + 1 - e t  (e = 1/1000 .. 1/2000) imply  y <= t ; a third, looser
        # bound  y <= t + d  with e d < 10^-5 is redundant -- a solver that tolerates a violation of 10^-5 would stop at it (0.4 % .. 1.6 % off)
        den, dl = rng.choice([(1000, 0.008), (500, 0.004), (2000, 0.016)])
        t = rng.choice([1, 2, 3])
        nv, vs = 2, ["x", "y"]
        inv, outv = ["y"], ["x"]
        a = [({"y": 1}, t + dl)]
        g = [({"x": 1, "y": 1}, t + 1), ({"x": -1, "y": -(1 - 1.0 / den)}, -(t + 1 - float(t) / den))]
        if rng.random() < 0.5:
            g.reverse()
        par = ({"y": 1}, True, "contract")
    elif shape == "vacuous_row":
        # ordinary rows together with a row that has no variable (what  x + 1 <= x  leaves): a contradiction when its constant is negative
        a = gen.bounded_list_raw(rng, inv)
        g = gen.bounded_list_raw(rng, outv) if outv else []
        free = ({}, rng.choice([-1, -2, -0.5, 0, 2]))
        side = g if (rng.random() < 0.6 or not a) else a
        side.insert(rng.choice([0, len(side), rng.randint(0, len(side))]), free)
    else:
        # the contradiction lives in a block of constraints that shares no variable with the objective
        a = gen.bounded_list_raw(rng, inv[:1])
        extra = "q"
        g = [({extra: 1}, 0), ({extra: -1}, -1)]
        outv = outv + [extra]
    objs = []
    for _ in range(3):
        sub = rng.sample(vs, rng.randint(1, min(3, nv)))
        objs.append(({v: rng.choice([-3, -2, -1, 1, 2, 3]) for v in sub}, rng.random() < 0.5, "contract"))
    objs.append(({rng.choice(vs): 1}, True, "bounds"))
    objs.append(({rng.choice(vs): 1}, False, "bounds"))
    objs.append(({rng.choice(inv): rng.choice([-1, 1])}, rng.random() < 0.5, "list"))
    if shape == "huge_coefficient":
        objs = [huge, ({inv[0]: 1}, True, "bounds"), (huge[0], True, "list")] + objs[:2]
    if shape == "near_equal_bounds":
        objs = [near, ({near[0].copy().popitem()[0]: 1}, near[0][inv[0]] > 0, "bounds"), (near[0], True, "list")] + objs[:2]
    if shape == "near_parallel":
        objs = [par, ({"y": 1}, True, "bounds"), ({"y": 2}, True, "list"), ({"x": 1, "y": 3}, True, "contract")] + objs[:1]
    if shape == "presolve_trap":
        objs = [(trap, True, "contract"), ({v: -c for v, c in trap.items()}, False, "contract"), (trap, True, "list"),
                (trap, False, "contract"), ({v: -c for v, c in trap.items()}, True, "list")] + objs[:2]
    case = {"c": {"inv": inv, "outv": outv, "a": a, "g": g}, "objs": objs, "shape": shape}
    if shape == "print_twin":
        # a second contract that PRINTS like the first (one bound larger by 2^-11): the same questions, asked in the same process
        cand = [(part, k) for part in ("a", "g") for k, (co, cst) in enumerate(case["c"][part]) if co and 1 <= abs(cst) <= 9 and float(cst).is_integer()]
        if cand:
            part, k = rng.choice(cand)
            tw = {key: (list(val) if isinstance(val, list) else val) for key, val in case["c"].items()}
            tw[part] = list(tw[part])
            tw[part][k] = (dict(tw[part][k][0]), tw[part][k][1] + 2.0**-11)
            case["twin"] = tw
    return case


def gen_cases(tier):
    sd = seed()
    n = 260 if tier == "quick" else 8000
    out = []
    for i in range(n):
        c = gen_case(family.rng_for(sd, PROP, i), i)
        c["id"] = i + 1
        out.append(c)
    return out


def run_case(case):
    evs = []
    for j, (obj, mx, via) in enumerate(case["objs"], 1):
        if case.get("only_event") and case["only_event"] != j:
            continue
        evs.append(lpev.ev_optimize(case["c"], obj, mx, via))
    if case.get("twin") and not case.get("only_event"):
        for obj, mx, via in case["objs"]:
            evs.append(lpev.ev_optimize(case["twin"], obj, mx, via))
    return {"id": case["id"], "ev": evs}


def _extra(rep, rd, tier):
    from vcommon import drift_tier

    drift_tier(PROP, "LP-algorithm", lambda: __import__("lpalgo").conformance(rep, rd, PROP, {"optimize"}, 200 if tier == "quick" else 4000, seed()))
    # the conversion to matrices every LP of the library is posed through (spec/Matrix.tla)
    drift_tier(PROP, "matrix-conversion", lambda: __import__("matrixdrv").conformance(rep, rd, PROP, tier))


def main(tier, replay=None):
    return lpev.run(
        PROP, tier, gen_cases(tier), run_case,
        "contracts (bounded boxes, half-open, random feasible, planted contradiction, a declared variable no constraint mentions, no "
        "constraint at all, a contradiction disconnected from the objective, shapes on which the solver's presolve misreports an unbounded problem, rows without variables among ordinary rows, bounds of 10^5 that differ by 10^-5 of themselves between assumptions and guarantees, a second contract that prints like the first) x objectives with <= 3 small integer coefficients, both "
        "directions, through PolyhedralIoContract.optimize, get_variable_bounds and TermList.optimize; TLC checks an optimality "
        "certificate (feasible primal point, exact box-free dual), an unboundedness certificate (point + recession ray) or a Farkas "
        "infeasibility certificate and compares the recorded answer; non-trivial = certified class and answer agree",
        owner=lambda ev: PROP, replay=replay,
        extra=lambda rep, rd: _extra(rep, rd, tier),
        nontrivial=lambda ev, kind, detail: kind == "ok",
        sig_of=lambda ev, detail: {"detail": detail, "nrows": min(len(ev["rows"]), 1)},
    )
