"""C12 -- optimisation over a contract returns the true optimum, None iff unbounded."""
import family
import gen
import lpev
from props.c03 import feasible_list
from vcommon import seed

PROP = "C12"


def gen_case(rng, i):
    nv = rng.choice([1, 2, 3, 4, 5])
    vs = gen.VARS6[6 - nv:]
    inv, outv = vs[: max(1, nv // 2)], vs[max(1, nv // 2):]
    shape = ["bounded", "bounded", "halfopen", "random", "infeasible", "free_var", "empty", "disconnected_infeasible"][i % 8]
    a, g = [], []
    if shape == "bounded":
        a = gen.bounded_list_raw(rng, inv)
        g = gen.bounded_list_raw(rng, outv) + gen.rlist_raw(rng, vs, 0, 2)
    elif shape == "halfopen":
        a = [({v: 1}, rng.randint(0, 4)) for v in inv]
        g, _ = feasible_list(rng, vs, rng.randint(1, 3))
    elif shape == "random":
        a, _ = feasible_list(rng, inv, rng.randint(0, 2))
        g, _ = feasible_list(rng, vs, rng.randint(1, 3))
    elif shape == "infeasible":
        g, _ = feasible_list(rng, vs, rng.randint(1, 3))
        r = rng.choice(g)
        g = g + [({v: -x for v, x in r[0].items()}, -r[1] - rng.choice([1, 2]))]
    elif shape == "free_var":
        # a declared variable that no constraint mentions
        a = gen.bounded_list_raw(rng, inv[:1])
        g = gen.bounded_list_raw(rng, outv[:1]) if outv else []
    elif shape == "empty":
        a, g = [], []
    else:
        # the contradiction lives in a block of constraints that shares no variable with the objective
        a = gen.bounded_list_raw(rng, inv[:1])
        extra = "q"
        g = [({extra: 1}, 0), ({extra: -1}, -1)]
        outv = outv + [extra]
    objs = []
    for _ in range(3):
        sub = rng.sample(vs, rng.randint(1, min(3, nv)))
        objs.append(({v: rng.choice([-3, -2, -1, 1, 2, 3]) for v in sub}, rng.random() < 0.5, "contract"))
    objs.append(({rng.choice(vs): 1}, True, "bounds"))
    objs.append(({rng.choice(vs): 1}, False, "bounds"))
    objs.append(({rng.choice(inv): rng.choice([-1, 1])}, rng.random() < 0.5, "list"))
    return {"c": {"inv": inv, "outv": outv, "a": a, "g": g}, "objs": objs, "shape": shape}


def gen_cases(tier):
    sd = seed()
    n = 260 if tier == "quick" else 8000
    out = []
    for i in range(n):
        c = gen_case(family.rng_for(sd, PROP, i), i)
        c["id"] = i + 1
        out.append(c)
    return out


def run_case(case):
    evs = []
    for j, (obj, mx, via) in enumerate(case["objs"], 1):
        if case.get("only_event") and case["only_event"] != j:
            continue
        evs.append(lpev.ev_optimize(case["c"], obj, mx, via))
    return {"id": case["id"], "ev": evs}


def main(tier, replay=None):
    return lpev.run(
        PROP, tier, gen_cases(tier), run_case,
        "contracts (bounded boxes, half-open, random feasible, planted contradiction, a declared variable no constraint mentions, no "
        "constraint at all, a contradiction disconnected from the objective) x objectives with <= 3 small integer coefficients, both "
        "directions, through PolyhedralIoContract.optimize, get_variable_bounds and TermList.optimize; TLC checks an optimality "
        "certificate (feasible primal point, exact box-free dual), an unboundedness certificate (point + recession ray) or a Farkas "
        "infeasibility certificate and compares the recorded answer; non-trivial = certified class and answer agree",
        owner=lambda ev: PROP, replay=replay,
        extra=lambda rep, rd: __import__("lpalgo").conformance(rep, rd, PROP, {"optimize"}, 200 if tier == "quick" else 4000, seed()),
        nontrivial=lambda ev, kind, detail: kind == "ok",
        sig_of=lambda ev, detail: {"detail": detail, "nrows": min(len(ev["rows"]), 1)},
    )
