"""C01 -- composition returns a sound abstraction of the exact composition."""
import family
import gen
import ops
import opsprop
from vcommon import seed

PROP = "C01"


def gen_cases(tier):
    sd = seed()
    n = 270 if tier == "quick" else 6000
    cases = []
    for i in range(n):
        rng = family.rng_for(sd, PROP, i)
        schema = gen.SCHEMAS[i % len(gen.SCHEMAS)] if i % 9 != 4 else (["tlp_degenerate", "t4_chain", "fanout3", "twins"][(i // 9) % 4])
        pr = gen.build_pair(rng, schema, dyadic=0.1 if i % 7 == 0 else 0.0)
        if i % 9 == 7 and (i // 9) % 3 == 0:
            pr, schema = mixed2(rng) or pr, "mixed2"
        if i % 9 == 7 and (i // 9) % 3 == 1:
            pr, schema = circular(rng) or pr, "circular"
        if i % 9 == 7 and (i // 9) % 3 == 2:
            pr, schema = split_equality(rng) or pr, "split_equality"
        if pr is None:
            continue
        d1, d2, swap = pr
        if i % 5 == 3:
            plant_twins(rng, d1, d2)
        cfgs = []
        for keep in gen.keep_choices(rng, d1, d2):
            cfgs.append((keep, rng.random() < 0.6, gen.rorder(rng)))
        for o in ([1], [2], [3], [4], [5]):
            cfgs.append((rng.choice(gen.keep_choices(rng, d1, d2)), rng.random() < 0.5, o))
        if tier == "quick":
            cfgs = rng.sample(cfgs, min(4, len(cfgs)))
        if schema == "split_equality":
            cfgs = [([], True, None), ([], False, None), ([], True, [2, 1]), ([], True, gen.rorder(rng))]
        if schema == "circular":
            cfgs = [([], True, None), ([], False, None), ([], False, [4]), ([], True, [1, 2])]
        if schema == "mixed2":
            cfgs = [([], False, [1]), ([], True, None), ([], False, [3, 1]), ([], True, [1, 2, 3, 4, 5])]
        if schema == "t4_chain":
            cfgs = [([], False, [4]), ([], True, [4, 1, 2]), ([], True, None), ([], False, [1, 2, 3, 4, 5])]
        if schema == "tlp_degenerate":
            # tactic 5 ahead of the others, on a degenerate optimum
            cfgs = [([], False, [5]), ([], False, [5, 1, 2, 3, 4]), ([], True, [5, 2]), ([], True, [5])]
        cases.append({"id": i + 1, "raw": [d1, d2], "swap": swap, "schema": schema, "cfgs": cfgs, "sibling": i % 3 == 0})
    return cases


def mixed2(rng):
    """The consumer assumes a bound on s1 x + s2 y + j over TWO outputs of the producer; the producer's guarantees over x and y have signs
    drawn independently of s1, s2 (rows that bound x + y say nothing about x - y), rows of the wrong shape come before usable ones."""
    s1, s2 = rng.choice([1, -1, 2]), rng.choice([1, -1, 2])
    g = []
    for _ in range(rng.randint(1, 2)):
        g.append(({"x": rng.choice([1, -1, 2, -2]), "y": rng.choice([1, -1, 2, -2]), "i": rng.choice([1, -1])}, rng.randint(0, 5)))
    if rng.random() < 0.6:
        g += [({"y": 1 if s2 > 0 else -1}, rng.randint(1, 4)), ({"x": 1 if s1 > 0 else -1, "i": -1}, rng.randint(0, 5))]
    d1 = {"inv": ["i"], "outv": ["x", "y"], "a": [({"i": 1}, rng.randint(2, 6))] if rng.random() < 0.5 else [], "g": g}
    d2 = {"inv": ["x", "y", "j"], "outv": ["o"], "a": [({"x": s1, "y": s2, "j": 1}, rng.randint(6, 12))], "g": [({"o": 1, "j": -1}, rng.randint(0, 3))]}
    try:
        gen.mk_contract(d1), gen.mk_contract(d2)
    except ValueError:
        return None
    return d1, d2, rng.random() < 0.5


def circular(rng):
    """The consumer assumes a bound on the producer's output x and GUARANTEES a relation between x and another of its own inputs j.
    Its guarantees hold only once its assumptions do: they cannot be what discharges its assumptions.  The producer bounds x weakly
    (through its input) or not at all from that side."""
    sg = rng.choice([1, -1])
    k = rng.randint(1, 3)
    weak = rng.random() < 0.6
    d1 = {"inv": ["i"], "outv": ["x"], "a": [({"i": sg}, rng.randint(4, 8))] if rng.random() < 0.5 else [],
          "g": [({"x": sg, "i": -sg}, rng.randint(2, 5))] if weak else [({"x": -sg, "i": sg}, 0)]}
    d2 = {"inv": ["x", "j"], "outv": ["o"], "a": [({"x": sg}, k)], "g": [({"x": sg, "j": -sg}, 0), ({"o": 1, "j": -1}, rng.randint(0, 2))]}
    try:
        gen.mk_contract(d1), gen.mk_contract(d2)
    except ValueError:
        return None
    return d1, d2, rng.random() < 0.5


def split_equality(rng):
    """The two halves of an equality split across the contracts: the producer assumes (or guarantees) the upper bound  a.x <= b , the
    consumer assumes the lower bound written at ANOTHER SCALE ( -m a.x <= -m b ): a negative multiple of a context term is the opposite
    half-space, not a copy of it."""
    b, m, k = rng.randint(0, 3), rng.choice([1, 2, 3]), rng.choice([1, 2])
    sg = rng.choice([1, -1])
    if rng.random() < 0.5:
        # on a shared input
        d1 = {"inv": ["i"], "outv": ["o"], "a": [({"i": sg * k}, sg * k * b)], "g": [({"o": 1, "i": -1}, rng.randint(0, 3))]}
        d2 = {"inv": ["i", "o"], "outv": ["p"], "a": [({"i": -sg * m}, -sg * m * b)], "g": [({"p": 1, "o": -1}, 0)]}
    else:
        # on the producer's output
        d1 = {"inv": ["i"], "outv": ["o"], "a": [({"i": 1}, 5)] if rng.random() < 0.5 else [], "g": [({"o": sg * k}, sg * k * b), ({"o": -1, "i": 1}, 9)]}
        d2 = {"inv": ["o"], "outv": ["p"], "a": [({"o": -sg * m}, -sg * m * b)], "g": [({"p": 1, "o": -1}, 0)]}
    try:
        gen.mk_contract(d1), gen.mk_contract(d2)
    except ValueError:
        return None
    return d1, d2, rng.random() < 0.5


def plant_twins(rng, d1, d2):
    """Terms that are easily taken for one another -- a near twin (one coefficient off by 10^-5 of itself), the same coefficients handed to
    other variables, another first coefficient -- placed on the two sides of a composition: an assumption of the consumer next to a
    guarantee of the producer, or assumptions of both over a shared input.  They are different constraints and each has to be honoured."""
    from props import c08

    def twin_of(r):
        k = rng.random()
        if k < 0.4:
            return c08.near_twin(rng, r)
        t = c08.permuted_twin(r) if k < 0.7 else c08.first_coefficient_twin(r)
        return (r, t) if t else None

    saved = ([list(d1[k]) for k in ("a", "g")], [list(d2[k]) for k in ("a", "g")])
    shared_in = [v for v in d1["inv"] if v in d2["inv"]]
    pairs = []
    if d2["a"]:
        r = rng.choice(d2["a"])
        if set(r[0]) <= set(d1["inv"]) | set(d1["outv"]):
            pairs.append((d2["a"], r, d1["g"]))
    if shared_in and d1["a"]:
        r = rng.choice(d1["a"])
        if set(r[0]) <= set(shared_in):
            pairs.append((d1["a"], r, d2["a"]))
    for src, r, dst in pairs:
        tw = twin_of(r)
        if tw:
            base, twin = tw
            src[src.index(r)] = base
            dst.append(twin)
    try:
        gen.mk_contract(d1), gen.mk_contract(d2)
    except ValueError:
        # the planted rows made one of the contracts unsatisfiable: the pair stays as it was generated
        (d1["a"], d1["g"]), (d2["a"], d2["g"]) = saved


def sibling(d1, d2):
    """The consumer's assumptions turned into a component that GUARANTEES them: composing the producer with it relaxes the very
    terms that composing the producer with the consumer refines, in the same process (nothing may be carried from one to the other)."""
    if not d2["a"]:
        return None
    used = sorted({v for co, _ in d2["a"] for v in co})
    free = [v for v in used if v not in d1["outv"] and v not in d1["inv"]]
    outv = free[:1] or ["sib_o"]
    return {"inv": [v for v in used if v not in outv], "outv": outv, "a": [], "g": list(d2["a"])}


def run_case(case):
    d1, d2 = case["raw"]
    evs = []
    sib = sibling(d1, d2) if case.get("sibling") and not case.get("only_event") else None

    def sib_event():
        try:
            c1, cs = gen.mk_contract(d1), gen.mk_contract(sib)
        except ValueError:
            return
        evs.append(ops.ev_compose(c1, cs, [], True, case["cfgs"][0][2], ["sound", "itf"]))

    if sib and case["id"] % 2:
        sib_event()
    for j, (keep, simp, order) in enumerate(case["cfgs"], 1):
        if case.get("only_event") and case["only_event"] != j:
            continue
        try:
            c1, c2 = gen.mk_contract(d1), gen.mk_contract(d2)
        except ValueError:
            break       # an operand that cannot be built (only a tree under test that refuses satisfiable contracts gets here): no event
        if case["swap"]:
            c1, c2 = c2, c1
        evs.append(ops.ev_compose(c1, c2, keep, simp, order, ["sound", "itf"]))
    if sib and not case["id"] % 2:
        sib_event()
        try:
            c1, c2 = gen.mk_contract(d1), gen.mk_contract(d2)
        except ValueError:
            return {"id": case["id"], "ev": evs}
        keep, simp, order = case["cfgs"][0]
        evs.append(ops.ev_compose(c2 if case["swap"] else c1, c1 if case["swap"] else c2, keep, simp, order, ["sound", "itf"]))
    return {"id": case["id"], "ev": evs}


def main(tier, replay=None):
    return opsprop.run(
        PROP, tier, gen_cases(tier), run_case,
        "one trace per generated contract pair (9 wiring schemas), one event per (vars_to_keep, simplify, tactics_order); for a third of the "
        "pairs also the producer composed with a component that guarantees what the consumer assumes, before or after (same process); "
        "non-trivial = compose returned a contract and some variable was eliminated by a tactic >= 1; distinct by digest of the call",
        replay=replay, design=("Alg_compose_quick.cfg", "Alg_compose.cfg"),
        nontrivial=lambda ev: ev["exc"] == "none" and bool(ops.tactics_used(ev)),
    )
