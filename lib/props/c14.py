"""C14 -- failures are reported only through the documented exceptions.

(a) the exception class of every call made by the drivers of the other checks is judged by their
    trace specifications; this check replays a reduced mix of all of them plus adversarial shapes
    and reports the `exception:` verdicts;
(b) spec/DictFaults.tla enumerates every single-field deletion / kind change of a contract
    dictionary and of a file entry (TLC, exhaustive); each fault is applied to real dictionaries
    and pushed through validate_contract_dict, from_dict and read_contracts_from_file.
"""
from __future__ import annotations

import copy
import json
import os
import re
import shutil

import family
import gen
import lpev
import ops
import opsprop
from props import c01, c02, c03, c04, c07, c08, c09, c11, c12, c13, c15, c16
from tlcrun import run_tlc, stats_of, require_clean
from vcommon import Report, digest, die, run_dir, seed

PROP = "C14"
VALUE = {"to_list": [1], "to_str": "zz", "to_number": 3, "to_dict": {"k": 1}, "to_null": None, "to_bool": True}


def base_dicts():
    from pacti.contracts import PolyhedralIoContract

    c = PolyhedralIoContract.from_strings(["i <= 2", "-i <= 0"], ["o - 2i <= 1", "|o| <= 9"], ["i"], ["o"])
    return {"machine": c.to_machine_dict(), "human": c.to_dict()}


def apply_fault(d, path, fault):
    d = copy.deepcopy(d)
    parts = path.split("_")
    # resolve field names that contain underscores
    keys = []
    i = 0
    while i < len(parts):
        if parts[i] in ("input", "output"):
            keys.append(parts[i] + "_vars")
            i += 2
        elif parts[i] == "0":
            keys.append(0)
            i += 1
        else:
            keys.append(parts[i])
            i += 1
    cur = d
    for k in keys[:-1]:
        if k == 0 and isinstance(cur, dict):
            k = sorted(cur)[0]
        cur = cur[k]
    last = keys[-1]
    if last == 0 and isinstance(cur, dict):
        last = sorted(cur)[0]
    if fault == "delete":
        del cur[last]
    else:
        cur[last] = VALUE[fault]
    return d


def outcome(fn):
    try:
        fn()
        return "accepted"
    except ValueError as e:
        # IncompatibleArgsError is a ValueError: a documented rejection either way
        return "ValueError"
    except Exception as e:  # noqa: BLE001
        return type(e).__name__


def run_fault(item):
    from pacti.contracts import PolyhedralIoContract
    from pacti.terms.polyhedra import serializer
    from pacti.utils.fileio import read_contracts_from_file

    f = item["fault"]
    base = base_dicts()[f["rep"]]
    machine = f["rep"] == "machine"
    typ = "PolyhedralIoContract_machine" if machine else "PolyhedralIoContract"
    evs = []
    tmp = os.path.join(item["dir"], "fault-%d-%d.json" % (os.getpid(), item["id"]))

    def via_file(data):
        with open(tmp, "w") as fh:
            json.dump(data, fh)
        try:
            return outcome(lambda: read_contracts_from_file(tmp))
        finally:
            os.remove(tmp)

    if f["level"] == "dict":
        try:
            d = apply_fault(base, f["path"], f["fault"])
        except (KeyError, IndexError, TypeError):
            return {"id": item["id"], "ev": []}
        evs.append({"entry": "validate_contract_dict", "outcome": outcome(lambda: serializer.validate_contract_dict(d, "c", machine))})
        if machine:
            evs.append({"entry": "from_dict", "outcome": outcome(lambda: PolyhedralIoContract.from_dict(d))})
        evs.append({"entry": "read_contracts_from_file", "outcome": via_file([{"name": "c", "type": typ, "data": d}])})
    else:
        entry = {"name": "c", "type": typ, "data": base}
        if f["path"] == "file":
            data = VALUE[f["fault"]]
        elif f["path"] == "entry":
            data = [VALUE[f["fault"]]]
        else:
            e2 = dict(entry)
            if f["fault"] == "delete":
                del e2[f["path"]]
            else:
                e2[f["path"]] = VALUE[f["fault"]]
            data = [e2]
        if data == [1] and f["path"] == "file":
            data = [1]
        evs.append({"entry": "read_contracts_from_file", "outcome": via_file(data)})
    for e in evs:
        e.update(groups=["fault"], fault=f)
    return {"id": item["id"], "ev": evs}


def adversarial_c04(sd, n):
    """empty lists, single-variable rows, unbounded / degenerate contexts, more eliminated variables than
    context rows, coefficients that cancel"""
    cases = []
    for i in range(n):
        rng = family.rng_for(sd, "C14adv", i)
        vs = gen.VARS6[2:]
        shape = i % 7
        if shape == 6:
            # a chain of eliminated variables that ends nowhere: x <= y, y <= z and nothing about z -- the recursion of tactic 4 comes back
            # empty-handed from two levels down
            sg = rng.choice([1, -1])
            S = [({"x": sg, "w": rng.choice([1, -1])}, rng.randint(0, 4))]
            ctx = [({"x": sg, "y": -sg}, 0), ({"y": sg, "z": -sg}, rng.choice([0, 1]))] + ([({"w": 1}, 3)] if rng.random() < 0.5 else [])
            elim = ["x", "y", "z"]
        elif shape == 0:
            S, ctx, elim = [], gen.rlist_raw(rng, vs, 0, 2), [rng.choice(vs)]
        elif shape == 1:
            S, ctx, elim = [({"x": rng.choice([1, -2])}, rng.randint(-3, 3))], [({"x": rng.choice([1, -1])}, 2)], ["x"]
        elif shape == 2:
            S, ctx, elim = gen.rlist_raw(rng, vs, 1, 2, must="x"), [], ["x", "y", "z"]
        elif shape == 3:
            S = [({"x": 1, "y": -1}, 0), ({"y": 1, "x": -1}, 0)]
            ctx, elim = [({"x": 1, "y": 1}, 4), ({"x": -1, "y": -1}, -4)], ["y"]
        elif shape == 4:
            S = gen.rlist_raw(rng, vs, 1, 3, must="y")
            ctx = [({"y": 1}, 3), ({"y": 1}, 3), ({"y": -1}, -3), ({"x": 1, "y": 1}, 3)]
            elim = ["y"]
        else:
            S = gen.rlist_raw(rng, vs, 1, 3, must="x")
            ctx = gen.rlist_raw(rng, ["x", "y"], 1, 2)
            elim = ["x", "y"]
        cfgs = [(op, o, s) for op in ("refine", "relax") for o in c04.ORDERS for s in (False, True)]
        picked = rng.sample(cfgs, 8)
        if shape == 6:
            picked = [("refine", [4], False), ("refine", [4], True), ("refine", [1, 2, 3, 4, 5], False), ("refine", [4, 1], True)] + picked[:4]
        cases.append({"id": 100000 + i, "S": S, "ctx": ctx, "elim": elim, "cfgs": picked})
    return cases


def decimal_cases(sd, n):
    """equalities with non-dyadic decimal coefficients (0.1, 0.3, 0.7 ...) on a connection variable: float arithmetic leaves residues
    like 1e-17 where exact arithmetic cancels -- legal inputs, only documented exceptions may come out, from the operation or from printing"""
    out = []
    decs = [0.1, 0.3, 0.7, 0.2, 1.1, 0.9]
    for i in range(n):
        rng = family.rng_for(sd, "C14dec", i)
        a, b = rng.choice([3, 7, 0.3, 1.3, 9]), rng.choice(decs)
        d1 = {"inv": ["i"], "outv": ["o"], "a": [({"i": 1}, 10)], "g": [({"o": a, "i": -b}, 0), ({"o": -a, "i": b}, 0)]}
        if rng.random() < 0.5:
            d1["g"].append(({"o": 1}, rng.choice([40, 7.7])))
        d2 = {"inv": ["o"], "outv": ["p"], "a": [({"o": 1}, rng.choice([50, 12.3]))] if rng.random() < 0.5 else [], "g": [({"p": 1, "o": rng.choice([1, 0.7, -0.3])}, 5)]}
        out.append({"id": 300000 + i, "raw": [d1, d2]})
    return out


def decimal_run(case):
    d1, d2 = case["raw"]
    evs = []
    for x, y in ((d1, d2), (d2, d1)):
        for simp in (True, False):
            c1, c2 = gen.mk_contract(x), gen.mk_contract(y)
            ev = ops.ev_compose(c1, c2, [], simp, None, ["itf"])
            evs.append(ev)
    # printing is a public operation too
    c1 = gen.mk_contract(d1)
    ev = ops.ev_compose(c1, gen.mk_contract(d2), ["o"], True, [2, 3, 4, 5], ["itf"])
    evs.append(ev)
    return {"id": case["id"], "ev": evs}


def refusal_cases(sd, n):
    """operations that have to REFUSE, and have several variables to name in the refusal: a consumer whose two (or three) inputs are driven
    by a producer that promises nothing about them (either call order), a dividend whose guarantee mentions several outputs of a divisor
    that promises nothing about them, a divisor that reads several outputs of the quotient"""
    out = []
    for i in range(n):
        rng = family.rng_for(sd, "C14ref", i)
        k = rng.choice([2, 2, 3])
        us = ["u", "v", "t"][:k]
        top = {"inv": list(us), "outv": ["w"], "a": [({u: 1}, rng.randint(1, 3)) for u in us] if rng.random() < 0.6 else [({u: 1 for u in us}, 4)],
               "g": [(dict({u: -1 for u in us}, w=1), 0)]}
        drv = {"inv": ["i"], "outv": list(us), "a": [({"i": 1}, 5)] if rng.random() < 0.5 else [],
               "g": [] if rng.random() < 0.6 else [({us[0]: 1, "i": -1}, 0)]}
        div_top = {"inv": ["i"], "outv": us + ["o"], "a": [], "g": [(dict({u: 1 for u in us}, o=1), rng.randint(5, 10))]}
        div = {"inv": ["k"], "outv": list(us), "a": [], "g": [] if rng.random() < 0.6 else [({us[-1]: 1, "k": -1}, 0)]}
        out.append({"id": 400000 + i, "raw": [top, drv, div_top, div]})
    return out


def refusal_run(case):
    top, drv, div_top, div = case["raw"]
    evs = []
    for x, y in ((top, drv), (drv, top)):
        for simp, order in ((True, None), (False, None), (True, [4, 1])):
            evs.append(ops.ev_compose(gen.mk_contract(x), gen.mk_contract(y), [], simp, order, ["itf"]))
    for simp in (True, False):
        evs.append(ops.ev_quotient(gen.mk_contract(div_top), gen.mk_contract(div), [], simp, None, ["itf"]))
        evs.append(ops.ev_quotient(gen.mk_contract(top), gen.mk_contract(drv), [], simp, None, ["itf"]))
    return {"id": case["id"], "ev": evs}


def adversarial_lp(case):
    """constraints without any variable ('1 <= 2', or rows whose coefficients cancelled): legal inputs;
    only the exception class is judged here"""
    S, ctx = case["S"], case["ctx"]
    evs = [lpev.ev_simplify(S, ctx, "list"), lpev.ev_simplify(S, [], "list", with_ctx=False), lpev.ev_refines(S, ctx or S), lpev.ev_empty(S)]
    if ctx:
        evs.append(lpev.ev_simplify(S, ctx, "contract"))
    return {"id": case["id"], "ev": evs}


def adversarial_lp_cases(sd, n):
    out = []
    for i in range(n):
        rng = family.rng_for(sd, "C14lp", i)
        free = [({}, rng.choice([-1, 0, 1, 2])) for _ in range(rng.randint(1, 2))]
        withv = gen.rlist_raw(rng, ["x", "y"], 0, 2)
        shape = i % 4
        if shape == 0:
            S, ctx = free, []
        elif shape == 1:
            S, ctx = free, [({}, rng.choice([0, 1]))]
        elif shape == 2:
            S, ctx = free + withv, [({}, 1)]
        else:
            S, ctx = withv or free, free
        out.append({"id": 200000 + i, "S": S, "ctx": ctx})
    return out


def main(tier, replay=None):
    rep = Report(PROP, tier)
    rd = run_dir(PROP)
    sd = seed()
    if replay:
        with open(replay) as f:
            rc = json.load(f)["case"]
        die("C14 replay: re-run the owning family's check with --replay (family recorded in the file: %s)" % rc.get("family", "faults"))
    totals = {"evaluations": 0, "traces": 0}
    nontriv, counts = set(), {}

    def absorb(tag, out):
        totals["evaluations"] += out["evaluations"]
        totals["traces"] += out["traces"]
        for k, v in out["verdict_counts"].items():
            counts[tag + "/" + k] = counts.get(tag + "/" + k, 0) + v
        nontriv.update(out["nontrivial"])

    q = tier == "quick"
    # (a) reduced mix of every driver, exception verdicts only
    absorb("C04", c04.main(tier, rep=rep, prop=PROP, cases=c04.gen_cases("quick")[: 90 if q else 260] + adversarial_c04(sd, 60 if q else 600)))
    for mod, rule_groups, n in ((c01, None, 60), (c02, None, 60), (c08, None, 40), (c15, None, 40), (c16, None, 30)):
        cases = mod.gen_cases("quick")[: n if q else 4 * n]
        if mod is c16:
            cases = [c for c in mod.gen_cases("quick") if (c["id"] - 1) % 10 == 9][: 30 if q else 120] + cases[:10]
        absorb(mod.PROP, opsprop.run(PROP, tier, cases, mod.run_case, "", rep=rep))
    for mod, n in ((c03, 200), (c07, 120), (c11, 150), (c12, 60)):
        cases = mod.gen_cases("quick")[: n if q else 4 * n]
        absorb(mod.PROP, lpev.run(PROP, tier, cases, mod.run_case, "", owner=lambda ev: "none", rep=rep))
    absorb("decimals", opsprop.run(PROP, tier, decimal_cases(sd, 40 if q else 400), decimal_run, "", rep=rep))
    absorb("refusals", opsprop.run(PROP, tier, refusal_cases(sd, 30 if q else 300), refusal_run, "", rep=rep))
    absorb("var-free", lpev.run(PROP, tier, adversarial_lp_cases(sd, 40 if q else 400), adversarial_lp, "", owner=lambda ev: "none", rep=rep))
    # (a') the parser on the spellings and malformations of C09, and the sessions of C13: exception class only
    pcases = c09.gen_cases("quick")[: 150 if q else 840]
    ptraces = family.pmap(c09.run_case, pcases, chunksize=2)
    pverd = family.judge_traces(rep, "TraceParse", "TraceParse.cfg", ptraces, rd, batch=300)
    for t in ptraces:
        for l, ev in enumerate(t["ev"], 1):
            totals["evaluations"] += 1
            kind, detail = pverd[(t["id"], l, "parse")]
            exc = kind == "violation" and detail.startswith("exception")
            key = "parser/%s/%s" % (ev["kind"], "violation:exception" if exc else ("ok" if kind == "ok" else "not-judged-here"))
            counts[key] = counts.get(key, 0) + 1
            nontriv.add(digest(["parse", ev["string"]]))
            if exc:
                rep.violation({"layer": "parser", "kind": ev["kind"], "outcome": ev["outcome"]}, {"family": "C09", "string": ev["string"], "outcome": ev["outcome"]})
    totals["traces"] += len(ptraces)
    sess = c13.main(tier, None, prop=PROP, rep=rep)
    totals["evaluations"] += sess["session_steps"]
    totals["traces"] += sess["session_histories"]
    for k, v in sess["session_verdicts"].items():
        if k.startswith("exc/"):
            counts["sessions/" + k] = v
    # (b) exhaustive fault enumeration generated by TLC
    res = run_tlc("DictFaults", "DictFaults.cfg", rd, workers=1, timeout=600)
    require_clean(res, "DictFaults")
    rep.add_tlc(stats_of(res))
    faults = []
    for m in re.finditer(r'<<"FAULT", "(.*?)">>\s*$', res["out"], re.M):
        f = json.loads(m.group(1).encode().decode("unicode_escape"))
        if f not in faults:
            faults.append(f)
    if len(faults) < 100:
        die("DictFaults.tla produced only %d faults" % len(faults))
    items = [{"id": i + 1, "fault": f, "dir": rd} for i, f in enumerate(faults)]
    traces = [t for t in family.pmap(run_fault, items, chunksize=4) if t["ev"]]
    verdicts = family.judge_traces(rep, "TraceFaults", "TraceFaults.cfg", traces, rd, batch=400)
    for t in traces:
        for l, ev in enumerate(t["ev"], 1):
            totals["evaluations"] += 1
            kind, detail = verdicts[(t["id"], l, "fault")]
            key = "faults/%s/%s:%s" % (ev["entry"], kind, detail.split(":")[0])
            counts[key] = counts.get(key, 0) + 1
            nontriv.add(digest([ev["fault"], ev["entry"]]))
            if kind == "violation":
                rep.violation({"layer": "dictionary-fault", "entry": ev["entry"], "rep": ev["fault"]["rep"], "level": ev["fault"]["level"],
                               "path": ev["fault"]["path"], "fault": ev["fault"]["fault"], "outcome": ev["outcome"]},
                              {"family": "faults", "fault": ev["fault"], "entry": ev["entry"], "outcome": ev["outcome"]})
    totals["traces"] += len(traces)
    rep.cov["samples"] = rep.cov["samples"][:2] + [{"fault": traces[0]["ev"][0]["fault"], "entry": traces[0]["ev"][0]["entry"], "outcome": traces[0]["ev"][0]["outcome"]}]
    shutil.rmtree(rd, ignore_errors=True)
    return rep.finish({
        "evaluations": totals["evaluations"],
        "distinct_nontrivial": len(nontriv),
        "traces_validated_against_impl": totals["traces"],
        "faults_enumerated": len(faults),
        "rule": "(a) reduced mix of the generators of C01-C04, C07, C08, C09 (spellings and malformed strings, including constants that divide by zero), "
                "C11, C12, C15, C16 and the operation sessions of C13, compositions and quotients that have to refuse with several variables to name, plus adversarial elimination shapes (empty lists, single "
                "variable, no context for several eliminated variables, cancelling rows, degenerate contexts); the exception class of every call "
                "is judged by the family's trace specification, and so is 'a failed call left its operands as they were'; (b) every single-field deletion / kind change of a contract dictionary (both "
                "representations) and of a file entry, enumerated exhaustively by TLC from DictFaults.tla, through validate_contract_dict, "
                "from_dict and read_contracts_from_file",
        "verdict_counts": counts,
        "exhaustive": True,
    })
