"""C08 -- merging is the exact conjunction of the two viewpoints."""
import family
import gen
import ops
import opsprop
from vcommon import seed

PROP = "C08"
SHAPES = ["shared_in", "shared_out", "same_itf", "disjoint", "clash"]


def scaled(raw, k):
    co, c = raw
    return ({v: a * k for v, a in co.items()}, c * k)


def near_twin(rng, raw):
    """(base, twin): the row scaled by 10^5 (same constraint) and a copy with one coefficient larger by 1 --
    a DIFFERENT constraint (it differs by the whole value of that variable) that a tolerant term
    equality (relative 1e-5) takes for a duplicate.  Integers only, so TLC can evaluate small witnesses."""
    co, c = raw
    co = {v: a for v, a in co.items() if float(a).is_integer()} or {sorted(co)[0]: 1}
    c = max(-1, min(1, int(c))) if float(c).is_integer() else 0     # a small bound keeps the tolerance small
    base = ({v: int(a) * 100000 for v, a in co.items()}, c * 100000)
    v = min(sorted(co), key=lambda x: (-abs(co[x]), x))
    twin = (dict(base[0]), base[1])
    twin[0][v] = base[0][v] + (1 if base[0][v] > 0 else -1)
    return base, twin


def weakened(raw, d):
    co, c = raw
    return (dict(co), c + d)


def viewpoint_pair(rng, shape, dyadic=0.0):
    if shape == "shared_in":
        d1 = gen.contract_raw(rng, ["i", "s"], ["o"], band=0.4, dyadic=dyadic)
        d2 = gen.contract_raw(rng, ["s", "j"], ["p"], band=0.4, dyadic=dyadic)
    elif shape == "shared_out":
        d1 = gen.contract_raw(rng, ["i", "s"], ["o"], band=0.4, dyadic=dyadic)
        d2 = gen.contract_raw(rng, ["s"], ["o", "p"][: rng.randint(1, 2)], band=0.4, dyadic=dyadic)
    elif shape == "same_itf":
        d1 = gen.contract_raw(rng, ["i", "s"], ["o"], band=0.4, dyadic=dyadic)
        d2 = gen.contract_raw(rng, ["i", "s"], ["o"], band=0.4, dyadic=dyadic)
    elif shape == "disjoint":
        d1 = gen.contract_raw(rng, ["i"], ["o"], dyadic=dyadic)
        d2 = gen.contract_raw(rng, ["j"], ["p"], dyadic=dyadic)
    else:  # an input of one viewpoint is an output of the other: union interface ill formed
        d1 = gen.contract_raw(rng, ["i"], ["o"], dyadic=dyadic)
        d2 = gen.contract_raw(rng, ["o"], ["p"], dyadic=dyadic)
    # plant redundancy across the two viewpoints
    for src, dst in ((d1, d2), (d2, d1)):
        for part in ("a", "g"):
            allowed = set(dst["inv"]) | (set(dst["outv"]) if part == "g" else set())
            cands = [r for r in src[part] if set(r[0]) <= allowed]
            if cands and rng.random() < 0.5:
                r = rng.choice(cands)
                how = rng.random()
                if how >= 0.8:
                    base, twin = near_twin(rng, r)
                    src[part][src[part].index(r)] = base
                    dst[part].append(twin)
                else:
                    dst[part].append(r if how < 0.3 else (scaled(r, 2) if how < 0.55 else weakened(r, rng.randint(1, 2))))
    return d1, d2


def gen_cases(tier):
    sd = seed()
    n = 400 if tier == "quick" else 10000
    cases = []
    for i in range(n):
        rng = family.rng_for(sd, PROP, i)
        shape = SHAPES[i % len(SHAPES)] if i % 11 else "clash"
        for _ in range(20):
            d1, d2 = viewpoint_pair(rng, shape, dyadic=0.15 if i % 6 == 0 else 0.0)
            try:
                gen.mk_contract(d1)
                gen.mk_contract(d2)
                break
            except ValueError:
                continue
        else:
            continue
        cases.append({"id": i + 1, "raw": [d1, d2], "shape": shape})
    return cases


def run_case(case):
    d1, d2 = case["raw"]
    evs = []
    for j, (x, y) in enumerate(((d1, d2), (d2, d1)), 1):
        if case.get("only_event") and case["only_event"] != j:
            continue
        evs.append(ops.ev_merge(gen.mk_contract(x), gen.mk_contract(y), ["exact", "itf"]))
    return {"id": case["id"], "ev": evs}


def main(tier, replay=None):
    return opsprop.run(
        PROP, tier, gen_cases(tier), run_case,
        "one trace per pair of viewpoints (shared inputs / shared outputs / same interface / disjoint / clashing), planted "
        "duplicated, scaled and weakened rows across the two; two events: both operand orders; non-trivial = merge returned",
        replay=replay, design=("Alg_merge_quick.cfg", "Alg_merge.cfg"), nontrivial=lambda ev: ev["exc"] == "none",
    )
