"""C08 -- merging is the exact conjunction of the two viewpoints."""
import family
import clauses as C
import gen
import ops
import opsprop
from vcommon import seed

PROP = "C08"
SHAPES = ["shared_in", "shared_out", "same_itf", "disjoint", "clash"]


def scaled(raw, k):
    co, c = raw
    return ({v: a * k for v, a in co.items()}, c * k)


def near_twin(rng, raw):
    """(base, twin): the row scaled by 10^5 (same constraint) and a copy with one coefficient larger by 1 --
    a DIFFERENT constraint (it differs by the whole value of that variable) that a tolerant term
    equality (relative 1e-5) takes for a duplicate.  Integers only, so TLC can evaluate small witnesses."""
    co, c = raw
    co = {v: a for v, a in co.items() if float(a).is_integer()} or {sorted(co)[0]: 1}
    c = max(-1, min(1, int(c))) if float(c).is_integer() else 0     # a small bound keeps the tolerance small
    base = ({v: int(a) * 100000 for v, a in co.items()}, c * 100000)
    v = min(sorted(co), key=lambda x: (-abs(co[x]), x))
    twin = (dict(base[0]), base[1])
    twin[0][v] = base[0][v] + (1 if base[0][v] > 0 else -1)
    return base, twin


def print_twin(rng, rows):
    """the same rows with ONE coefficient larger by a factor 1 + 2^-14: a different constraint (0.06 apart at |v| = 1000) that prints
    identically with four significant digits -- whatever is remembered between calls under a printed form confuses the two"""
    if not rows:
        return None
    k = rng.randrange(len(rows))
    co, c = rows[k]
    if not co:
        return None
    v = rng.choice(sorted(co))
    out = [(dict(a), b) for a, b in rows]
    out[k][0][v] = co[v] * (1 + 2.0**-14)
    return out


RENAMES = ["b", "h", "k", "m", "q", "t", "y"]


def first_coefficient_twin(raw):
    """the same variables, the same LAST coefficient and the same bound, another first coefficient: x + y <= 2 and 3x + y <= 2 are different
    constraints however their coefficients are walked through"""
    co, c = raw
    if len(co) < 2:
        return None
    ks = list(co)
    out = dict(co)
    out[ks[0]] = co[ks[0]] + (2 if co[ks[0]] > 0 else -2)
    return out, c


def permuted_twin(raw):
    """the same variables, the same bound, the same coefficients handed to OTHER variables: 2o + 3i <= 6 and 3o + 2i <= 6"""
    co, c = raw
    ks = list(co)
    if len(ks) < 2 or co[ks[0]] == co[ks[1]]:
        return None
    out = dict(co)
    out[ks[0]], out[ks[1]] = co[ks[1]], co[ks[0]]
    return out, c


def weakened(raw, d):
    co, c = raw
    return (dict(co), c + d)


def viewpoint_pair(rng, shape, dyadic=0.0):
    if shape == "shared_in":
        d1 = gen.contract_raw(rng, ["i", "s"], ["o"], band=0.4, dyadic=dyadic)
        d2 = gen.contract_raw(rng, ["s", "j"], ["p"], band=0.4, dyadic=dyadic)
    elif shape == "shared_out":
        d1 = gen.contract_raw(rng, ["i", "s"], ["o"], band=0.4, dyadic=dyadic)
        d2 = gen.contract_raw(rng, ["s"], ["o", "p"][: rng.randint(1, 2)], band=0.4, dyadic=dyadic)
    elif shape == "same_itf":
        d1 = gen.contract_raw(rng, ["i", "s"], ["o"], band=0.4, dyadic=dyadic)
        d2 = gen.contract_raw(rng, ["i", "s"], ["o"], band=0.4, dyadic=dyadic)
    elif shape == "disjoint":
        d1 = gen.contract_raw(rng, ["i"], ["o"], dyadic=dyadic)
        d2 = gen.contract_raw(rng, ["j"], ["p"], dyadic=dyadic)
    else:  # an input of one viewpoint is an output of the other: union interface ill formed
        d1 = gen.contract_raw(rng, ["i"], ["o"], dyadic=dyadic)
        d2 = gen.contract_raw(rng, ["o"], ["p"], dyadic=dyadic)
    # plant redundancy across the two viewpoints
    for src, dst in ((d1, d2), (d2, d1)):
        for part in ("a", "g"):
            allowed = set(dst["inv"]) | (set(dst["outv"]) if part == "g" else set())
            cands = [r for r in src[part] if set(r[0]) <= allowed]
            if cands and rng.random() < 0.5:
                r = rng.choice(cands)
                how = rng.random()
                tw = first_coefficient_twin(r)
                pw = permuted_twin(r)
                if how > 0.55 and how < 0.7 and (all(a > 0 for a in r[0].values()) or all(a < 0 for a in r[0].values())):
                    # the OPPOSITE half-space with the opposite bound: together the two viewpoints pin the expression to one value
                    dst[part].append(({v: -a for v, a in r[0].items()}, -r[1]))
                elif tw and how < 0.15:
                    dst[part].append(tw)
                elif pw and how < 0.3:
                    dst[part].append(pw)
                elif how >= 0.8:
                    base, twin = near_twin(rng, r)
                    src[part][src[part].index(r)] = base
                    dst[part].append(twin)
                else:
                    dst[part].append(r if how < 0.3 else (scaled(r, 2) if how < 0.55 else weakened(r, rng.randint(1, 2))))
    # several rows stated word for word by BOTH viewpoints, each followed by rows of its own
    if rng.random() < 0.25:
        both = [v for v in d1["inv"] + d1["outv"] if v in d2["inv"] + d2["outv"]]
        part = "g" if any(v in d1["outv"] or v in d2["outv"] for v in both) or rng.random() < 0.5 else "a"
        allowed = [v for v in both if part == "g" or (v in d1["inv"] and v in d2["inv"])]
        if allowed:
            shared = [gen.rrow(rng, allowed, nmax=min(2, len(allowed))) for _ in range(rng.randint(2, 3))]
            for d in (d1, d2):
                own = list(d[part])
                d[part] = [(dict(co), c) for co, c in shared] + own
    # one viewpoint assumes what the other guarantees, word for word (listed first, last or anywhere)
    for src, dst in ((d1, d2), (d2, d1)):
        cands = [r for r in src["a"] if set(r[0]) <= set(dst["inv"]) | set(dst["outv"])]
        if cands and rng.random() < 0.35:
            dst["g"].insert(rng.choice([0, 0, len(dst["g"]), rng.randint(0, len(dst["g"]))]), rng.choice(cands))
    if rng.random() < 0.5:
        # names carry no meaning: inputs need not sort before outputs
        old = sorted(set(d1["inv"] + d1["outv"] + d2["inv"] + d2["outv"]))
        m = dict(zip(old, rng.sample(RENAMES, len(old))))
        for d in (d1, d2):
            d["inv"], d["outv"] = [m[v] for v in d["inv"]], [m[v] for v in d["outv"]]
            for part in ("a", "g"):
                d[part] = [({m[v]: a for v, a in co.items()}, c) for co, c in d[part]]
    return d1, d2


def gen_cases(tier):
    sd = seed()
    n = 400 if tier == "quick" else 10000
    cases = []
    for i in range(n):
        rng = family.rng_for(sd, PROP, i)
        shape = SHAPES[i % len(SHAPES)] if i % 11 else "clash"
        for _ in range(20):
            d1, d2 = viewpoint_pair(rng, shape, dyadic=0.15 if i % 6 == 0 else 0.0)
            try:
                gen.mk_contract(d1)
                gen.mk_contract(d2)
                break
            except ValueError:
                continue
        else:
            continue
        case = {"id": i + 1, "raw": [d1, d2], "shape": shape}
        if i % 3 == 0 and shape != "clash":
            tw = print_twin(rng, d1["g"])
            if tw:
                case["twin"] = tw
        cases.append(case)
    return cases


def run_case(case):
    d1, d2 = case["raw"]
    evs = []
    for x, y in ((d1, d2), (d2, d1)):
        evs.append(ops.ev_merge(gen.mk_contract(x), gen.mk_contract(y), ["exact", "itf"]))
    if case.get("twin"):
        # the same merges again, in the same process, with one operand replaced by a print twin (stored exactly: simplify=False)
        t1 = dict(d1, g=case["twin"])
        for x, y in ((t1, d2), (d2, t1)):
            try:
                evs.append(ops.ev_merge(gen.mk_contract(x, simplify=False), gen.mk_contract(y, simplify=False), ["exact", "itf"]))
            except ValueError:
                pass
    if case["id"] % 3 == 1:
        # an operand that has ALREADY taken part in a merge is merged again, with a third viewpoint (the second one without its guarantees),
        # on the left and on the right: each result is the merge of the viewpoints as they were built, not of what an earlier call left behind
        try:
            c1, built = gen.mk_contract(d1), C.pcontract(gen.mk_contract(d1))
            d3 = dict(d2, g=[])
            ops._call(lambda: c1.merge(gen.mk_contract(d2)))
            evs.append(ops.ev_merge(c1, gen.mk_contract(d3), ["exact", "itf"], p1=built))
            evs.append(ops.ev_merge(gen.mk_contract(d3), c1, ["exact", "itf"], p2=built))
        except ValueError:
            pass
    if case.get("only_event"):
        evs = evs[case["only_event"] - 1: case["only_event"]]
    return {"id": case["id"], "ev": evs}


def main(tier, replay=None):
    return opsprop.run(
        PROP, tier, gen_cases(tier), run_case,
        "one trace per pair of viewpoints (shared inputs / shared outputs / same interface / disjoint / clashing), planted "
        "duplicated, scaled and weakened rows across the two, an assumption of one repeated word for word among the guarantees of the other, names "
        "in any alphabetical relation; two events: both operand orders, and for a third of the pairs two more with one operand replaced by a twin "
        "that prints identically (one coefficient larger by 2^-14 of itself); non-trivial = merge returned",
        replay=replay, design=("Alg_merge_quick.cfg", "Alg_merge.cfg"), nontrivial=lambda ev: ev["exc"] == "none",
    )
