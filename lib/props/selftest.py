"""./check selftest -- demonstrates that the specification is bound to the code and not vacuous.

 1. corrupting one recorded field of an accepted trace makes TLC reject it (no event stays `ok`);
 2. a mutated copy of Algebra.tla (a dropped conjunct) violates its invariant, so the invariants
    are exercised;
 3. wrong hints are never believed (a certificate with a changed multiplier does not verify).
Exit 0 when every demonstration behaves as required, 2 otherwise (it bears no property verdict).
"""
from __future__ import annotations

import copy
import os
import shutil
import sys

import family
from tlcrun import run_tlc
from vcommon import Report, SPEC, run_dir


def judge(module, cfg, traces, rd):
    rep = Report("SELFTEST", "quick")
    return family.judge_traces(rep, module, cfg, traces, rd)


def main(tier, replay=None):
    from props import c01, c04, c13

    rd = run_dir("selftest")
    ok = True

    def req(cond, what):
        nonlocal ok
        print(("PASS " if cond else "FAIL ") + what, flush=True)
        ok = ok and cond

    # ---- 1a. C04: flip the sign of one coefficient of a certified result row
    cases = c04.gen_cases("quick")[:40]
    traces = family.pmap(c04.run_case, cases)
    v = judge("TraceElim", "TraceElim.cfg", traces, rd)
    picked = None
    for t in traces:
        for l, ev in enumerate(t["ev"], 1):
            if v[(t["id"], l, "elim")] == ("ok", "certified") and ev["R"] and ev["R"][0]["co"]:
                picked = (t, l)
                break
        if picked:
            break
    req(picked is not None, "C04: found a certified elimination to corrupt")
    if picked:
        t, l = picked
        t2 = copy.deepcopy({"id": t["id"], "ev": [t["ev"][l - 1]]})
        var = sorted(t2["ev"][0]["R"][0]["co"])[0]
        t2["ev"][0]["R"][0]["co"][var] *= -1
        v2 = judge("TraceElim", "TraceElim.cfg", [t2], rd)
        req(v2[(t2["id"], 1, "elim")][0] != "ok", "C04: coefficient sign flipped in the recorded result -> rejected (%s)" % (v2[(t2["id"], 1, "elim")],))
        t3 = copy.deepcopy({"id": t["id"], "ev": [t["ev"][l - 1]]})
        for h in t3["ev"][0]["hints"]:
            if h["kind"] == "cert" and h["lam"]:
                k = sorted(h["lam"])[0]
                h["lam"][k] += 1
        v3 = judge("TraceElim", "TraceElim.cfg", [t3], rd)
        changed = any(h["kind"] == "cert" and h["lam"] for h in t3["ev"][0]["hints"])
        req((not changed) or v3[(t3["id"], 1, "elim")][0] != "violation", "C04: a tampered certificate never produces a violation (%s)" % (v3[(t3["id"], 1, "elim")],))
    # ---- 1b. C01/C06: swap the interface lists of a recorded composition; change an exception class
    cases = c01.gen_cases("quick")[:40]
    traces = family.pmap(c01.run_case, cases)
    v = judge("TraceOps", "TraceOps.cfg", traces, rd)
    done_itf = done_exc = False
    for t in traces:
        for l, ev in enumerate(t["ev"], 1):
            if not done_itf and ev["exc"] == "none" and v[(t["id"], l, "itf")][0] == "ok" and ev["res"]["inv"] != ev["res"]["outv"]:
                t2 = copy.deepcopy({"id": t["id"], "ev": [ev]})
                r = t2["ev"][0]["res"]
                r["inv"], r["outv"] = r["outv"], r["inv"]
                v2 = judge("TraceOps", "TraceOps.cfg", [t2], rd)
                req(v2[(t["id"], 1, "itf")][0] == "violation", "C06: swapped interface lists of a recorded composition -> violation (%s)" % (v2[(t["id"], 1, "itf")],))
                done_itf = True
            if not done_exc and ev["exc"] == "IncompatibleArgsError":
                t2 = copy.deepcopy({"id": t["id"], "ev": [ev]})
                t2["ev"][0]["exc"] = "KeyError"
                v2 = judge("TraceOps", "TraceOps.cfg", [t2], rd)
                req(v2[(t["id"], 1, "itf")][0] == "violation", "C14: exception class changed to KeyError in a recorded call -> violation (%s)" % (v2[(t["id"], 1, "itf")],))
                done_exc = True
    req(done_itf and done_exc, "C01 traces offered events to corrupt")
    # ---- 1c. C13: change one recorded post-snapshot
    rep = Report("SELFTEST", "quick")
    hs = c13.gen_histories(rep, rd, 4)
    traces = [c13.run_case({"id": i + 1, "hist": h["hist"], "focus": h["focus"], "seed": 0}) for i, h in enumerate(hs[:2])]
    t2 = copy.deepcopy(traces[0])
    e = next(x for x in t2["ev"] if not x["skipped"])
    e["post"][0] += 1000
    v2 = judge("TraceSession", "TraceSession.cfg", [t2], rd)
    idx = t2["ev"].index(e) + 1
    req(v2[(t2["id"], idx, "pure")][0] == "violation", "C13: one recorded post-snapshot changed -> violation (%s)" % (v2[(t2["id"], idx, "pure")],))
    # ---- 2. a mutated Algebra.tla violates its invariant
    src = open(os.path.join(SPEC, "Algebra.tla")).read()
    mut = src.replace("asm' = out.x \\cup hp.a", "asm' = out.x")
    req(mut != src, "Algebra.tla mutation site found")
    mdir = os.path.join(rd, "mutspec")
    os.makedirs(mdir, exist_ok=True)
    with open(os.path.join(mdir, "Algebra.tla"), "w") as f:
        f.write(mut)
    shutil.copy(os.path.join(SPEC, "Alg_quick.cfg"), mdir)
    import subprocess
    from tlcrun import JARS

    p = subprocess.run(["java", "-XX:+UseParallelGC", "-Xmx8g", "-cp", JARS, "tlc2.TLC", "-workers", "16", "-metadir", os.path.join(mdir, "meta"),
                        "-noGenerateSpecTE", "-config", "Alg_quick.cfg", "Algebra.tla"], cwd=mdir, capture_output=True, text=True, timeout=900)
    req("Invariant Sound is violated" in p.stdout, "Algebra.tla with the producer's assumptions dropped from the composition -> Sound violated")
    shutil.rmtree(rd, ignore_errors=True)
    print("SELFTEST " + ("PASSED" if ok else "FAILED"), flush=True)
    return 0 if ok else 2
