"""./check selftest -- the binding demonstrated from the other side: traces recorded from the UNCHANGED library are accepted by the
trace specifications; the same traces with ONE recorded field corrupted (an answer flipped, an optimum moved by one, an interface
list swapped, an exception class replaced, a coefficient of a row that came back changed) must be rejected by TLC at exactly the
corrupted event.  Exit 0 when every corruption is rejected, 1 otherwise.  (The seeded changes under seeded/ demonstrate the same
binding with the CODE corrupted instead of the trace.)"""
from __future__ import annotations

import copy
import shutil

import family
from vcommon import Report, run_dir


def _judge(rep, rd, module, cfg, traces):
    return family.judge_traces(rep, module, cfg, traces, rd, batch=300)


def _family(name, module, cfg, traces, group, pick, corrupt, rep, rd):
    """pick(ev) -> True for events to corrupt; corrupt(ev) edits a deep copy in place"""
    base = _judge(rep, rd, module, cfg, traces)
    targets = []
    bad = []
    for t in traces:
        t2 = copy.deepcopy(t)
        hit = None
        for l, ev in enumerate(t2["ev"], 1):
            if base.get((t["id"], l, group), ("", ""))[0] == "ok" and pick(ev):
                corrupt(ev)
                hit = l
                break
        if hit:
            bad.append(t2)
            targets.append((t["id"], hit))
    accepted_before = sum(1 for k, v in base.items() if v[0] == "ok")
    violations_before = sum(1 for k, v in base.items() if v[0] == "violation")
    after = _judge(rep, rd, module, cfg, bad)
    rejected = sum(1 for (tid, l) in targets if after[(tid, l, group)][0] in ("violation", "malformed"))
    print("SELFTEST family=%s events accepted on the unchanged library=%d (violations=%d); corrupted=%d rejected=%d" %
          (name, accepted_before, violations_before, len(targets), rejected), flush=True)
    return violations_before == 0 and len(targets) > 0 and rejected == len(targets)


def main(tier, replay=None):
    from props import c10, c11, c12, c16

    rep = Report("SELFTEST", "quick")
    rd = run_dir("selftest")
    ok = True

    cases = [c for c in c11.gen_cases("quick") if c["kind"] == "member"][:60]
    traces = family.pmap(c11.run_case, cases, chunksize=4)

    def flip(ev):
        ev["ans"] = "false" if ev["ans"] == "true" else "true"

    ok &= _family("C11 membership: answer flipped", "TraceLP", "TraceLP.cfg", traces, "member", lambda ev: ev["ans"] in ("true", "false"), flip, rep, rd)

    cases = c12.gen_cases("quick")[:60]
    traces = family.pmap(c12.run_case, cases, chunksize=4)

    def move(ev):
        ev["rn"] = ev["rn"] + ev["rd"]

    ok &= _family("C12 optimum: value moved by one", "TraceLP", "TraceLP.cfg", traces, "optimize", lambda ev: ev.get("ans") == "value", move, rep, rd)

    def none_for_value(ev):
        ev["ans"] = "none"

    ok &= _family("C12 optimum: None reported for a bounded objective", "TraceLP", "TraceLP.cfg", traces, "optimize", lambda ev: ev.get("ans") == "value", none_for_value, rep, rd)

    cases = c16.gen_cases("quick")[:40]
    traces = family.pmap(c16.run_case, cases, chunksize=2)

    def swap(ev):
        ev["res"]["inv"], ev["res"]["outv"] = ev["res"]["outv"], ev["res"]["inv"]

    ok &= _family("C16 rename: result interface lists swapped", "TraceOps", "TraceOps.cfg", traces, "itf",
                  lambda ev: ev["exc"] == "none" and sorted(ev["res"]["inv"]) != sorted(ev["res"]["outv"]), swap, rep, rd)

    def exc(ev):
        ev["exc"] = "KeyError"

    ok &= _family("C16 rename: exception class replaced", "TraceOps", "TraceOps.cfg", traces, "itf", lambda ev: ev["exc"] == "IncompatibleArgsError", exc, rep, rd)

    cases = c10.gen_cases("quick")[:40] if hasattr(c10, "gen_cases") else []
    if cases:
        import tempfile

        tmp = tempfile.mkdtemp(dir=rd)
        for c in cases:
            c["dir"] = tmp
        traces = family.pmap(c10.run_case, cases, chunksize=2)

        def coef(ev):
            rows = ev["back"]["g"] or ev["back"]["a"]
            v = sorted(rows[0]["co"])[0]
            rows[0]["co"][v] += rows[0]["k"]

        ok &= _family("C10 machine dictionary: a coefficient of a row that came back changed", "TraceSerial", "TraceSerial.cfg", traces, "serial",
                      lambda ev: ev["form"] == "machine-dict" and ev["exc"] == "none" and any(r["co"] for r in (ev["back"]["g"] or ev["back"]["a"])[:1]), coef, rep, rd)
    shutil.rmtree(rd, ignore_errors=True)
    print("SELFTEST %s" % ("passed" if ok else "FAILED"), flush=True)
    return 0 if ok else 1
