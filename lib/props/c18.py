"""C18 -- plot vertices are exactly the corners of the plotted slice."""
from __future__ import annotations

import json
import shutil
from fractions import Fraction as F

import clauses as C
import family
import gen
from vcommon import Report, digest, die, run_dir, seed

PROP = "C18"


def gen_case(rng, i):
    nv = rng.choice([2, 2, 3, 3, 4])
    vs = ["x", "y", "z", "w"][:nv]
    rng.shuffle(vs)
    xv, yv = vs[0], vs[1]
    others = vs[2:]
    shape = ["polygon", "polygon", "polygon", "segment", "point", "empty", "missing", "fixed_first", "fixed_only"][i % 9]
    if shape == "fixed_only":
        nv = 4
        vs = rng.sample(["x", "y", "z", "w"], 4)
        xv, yv = vs[0], vs[1]
        others = vs[2:]
    rows = []
    n = rng.randint(1, 5)
    values = {v: rng.randint(-5, 5) for v in others}
    pt = dict(values)
    pt[xv], pt[yv] = rng.randint(-2, 2), rng.randint(-2, 2)    # a planted point keeps most slices non-empty
    for _ in range(n):
        sub = rng.sample(vs, rng.randint(1, min(3, nv)))
        co = {v: rng.choice([-3, -2, -1, 1, 2, 3]) for v in sub}
        rows.append((co, sum(a * pt[v] for v, a in co.items()) + rng.choice([0, 1, 2, 3, 5])))
    if shape == "segment":
        a, b = rng.choice([1, 2, -1]), rng.choice([1, -1, 2])
        if rng.random() < 0.4:
            a = b = rng.choice([1, 2, -1])          # a segment on an anti-diagonal  x + y = const
        c = rng.randint(-2, 2)
        rows = [({xv: a, yv: b}, c), ({xv: -a, yv: -b}, -c)] + rows[:1]
    elif shape == "point":
        px, py = rng.randint(-2, 2), rng.randint(-2, 2)
        rows = [({xv: 1}, px), ({xv: -1}, -px), ({yv: 1}, py), ({yv: -1}, -py)]
    elif shape == "empty":
        rows.append(({xv: 1, yv: 1}, -30))
    elif shape == "missing" and others:
        values.pop(others[0])
        if not any(others[0] in co for co, _ in rows):
            rows.append(({others[0]: 1, xv: 1}, 3))
    elif shape == "fixed_only":
        # every constraint is over the FIXED variables only: the slice is the whole window when the given values satisfy them
        # and empty (ValueError) when they do not
        ok = rng.random() < 0.5
        a, b = rng.choice([1, 2, -1]), rng.choice([1, -1])
        val = a * values[others[0]] + b * values[others[1]]
        rows = [({others[0]: a, others[1]: b}, val + (rng.randint(0, 2) if ok else -rng.randint(1, 3)))]
        if rng.random() < 0.5:
            rows.append(({others[0]: -1}, -values[others[0]] + rng.randint(0, 2)))
    elif shape == "fixed_first" and others:
        # a fixed variable is mentioned first and y before x: the column order fix-up matters
        rows = [({others[0]: 1, yv: rng.choice([1, 2]), xv: rng.choice([2, 3, -1])}, rng.randint(2, 8))] + rows
    lo1, lo2 = rng.randint(-5, -2), rng.randint(-5, -2)
    case = {"rows": rows, "xv": xv, "yv": yv, "values": values, "xl": [lo1, rng.randint(2, 5)], "yl": [lo2, rng.randint(2, 5)]}
    if i % 18 in (1, 12):
        # a window of zero width or height: the slice is a segment or a point of it, not "no window"
        if rng.random() < 0.5:
            case["xl"] = [pt[xv], pt[xv]]
        else:
            case["yl"] = [pt[yv], pt[yv]]
        case["flat"] = True
    return case


def gen_cases(tier):
    sd = seed()
    n = 600 if tier == "quick" else 20000
    out = []
    for i in range(n):
        c = gen_case(family.rng_for(sd, PROP, i), i)
        c["id"] = i + 1
        out.append(c)
    return out


def run_case(case):
    from pacti.iocontract import Var
    from pacti.utils.plots import constraints_to_vertices

    tl = gen.mk_list(case["rows"])
    rows = C.prows(tl)
    evs = []
    # the same list object is sliced twice: first with narrower limits, then with the case's limits
    narrow = ([min(case["xl"][0] + 2, case["xl"][1] - 1), case["xl"][1] - 1], [min(case["yl"][0] + 2, case["yl"][1] - 1), case["yl"][1] - 1])
    if case.get("flat"):
        narrow = (list(case["xl"]), list(case["yl"]))
    for xl, yl in (narrow, (case["xl"], case["yl"])):
        evs.append(one_call(case, tl, rows, list(xl), list(yl)))
    return {"id": case["id"], "ev": evs}


def one_call(case, tl, rows, xl, yl):
    from pacti.iocontract import Var
    from pacti.utils.plots import constraints_to_vertices

    ev = {"rows": rows, "xv": case["xv"], "yv": case["yv"], "values": dict(case["values"]), "xl": xl, "yl": yl, "pts": [], "groups": ["plot"]}
    try:
        xs, ys = constraints_to_vertices(tl, Var(case["xv"]), Var(case["yv"]), {Var(k): v for k, v in case["values"].items()}, tuple(xl), tuple(yl))
        ev["ans"] = "ok"
        pts = []
        for x, y in zip(xs, ys):
            fx, fy = F(float(x)).limit_denominator(64), F(float(y)).limit_denominator(64)
            if abs(fx - F(float(x))) > F(1, 10**7) or abs(fy - F(float(y))) > F(1, 10**7):
                pts.append([0, 0, 0])
                continue
            d = fx.denominator * fy.denominator
            pts.append([int(fx * d), int(fy * d), d])
        ev["pts"] = pts
        ev["_raw"] = [[float(x), float(y)] for x, y in zip(xs, ys)]
    except Exception as e:  # noqa: BLE001
        ev["ans"] = type(e).__name__
        ev["_msg"] = str(e)[:100]
    return ev


def main(tier, replay=None):
    rep = Report(PROP, tier)
    rd = run_dir(PROP)
    cases = gen_cases(tier)
    if replay:
        with open(replay) as f:
            cases = [json.load(f)["case"]["case"]]
    traces = family.pmap(run_case, cases, chunksize=4)
    verdicts = family.judge_traces(rep, "TracePlots", "TracePlots.cfg", traces, rd, batch=400)
    counts, nontriv = {}, set()
    by_id = {c["id"]: c for c in cases}
    for t, l_ in ((t_, l_) for t_ in traces for l_ in (1, 2)):
        ev = t["ev"][l_ - 1]
        kind, detail = verdicts[(t["id"], l_, "plot")]
        key = "%s:%s" % (kind, detail.split(":")[0])
        counts[key] = counts.get(key, 0) + 1
        ncorn = len({tuple(F(p[0], p[2]) if p[2] else 0 for p in [q][:1]) + (F(q[1], q[2]) if q[2] else 0,) for q in ev["pts"]})
        counts["corners=%d" % ncorn] = counts.get("corners=%d" % ncorn, 0) + 1
        if kind == "ok":
            nontriv.add(digest([by_id[t["id"]], l_]))
        if kind == "violation":
            rep.violation({"law": detail.split(":")[0], "ans": ev["ans"]}, {"case": by_id[t["id"]], "event": family.clean_json(ev), "raw": ev.get("_raw"), "verdict": [kind, detail]})
        if len(rep.cov["samples"]) < 3 and ncorn >= 3:
            rep.sample({"case": by_id[t["id"]], "vertices": ev.get("_raw"), "verdict": [kind, detail]})
    shutil.rmtree(rd, ignore_errors=True)
    return rep.finish({
        "evaluations": 2 * len(traces),
        "distinct_nontrivial": len(nontriv),
        "traces_validated_against_impl": len(traces),
        "rule": "constraint lists over 2-4 variables (coefficients -3..3), integer values for the non-plot variables and integer limits in [-5,5]: "
                "polygons, segments, single points, empty slices, a missing value, a fixed variable mentioned before y before x; TLC computes the slice and "
                "its exact corner set itself (Cramer's rule in integers) and compares it with the recorded vertices as sets, checks angular order by "
                "cross products, and demands ValueError exactly for an empty slice / missing value; non-trivial = judged ok",
        "verdict_counts": counts,
        "exhaustive": False,
    })
