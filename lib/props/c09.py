"""C09 -- parsing a constraint string preserves its arithmetic meaning."""
from __future__ import annotations

import json
import shutil

import clauses as C
import family
import gram
import hints as H
from vcommon import Report, digest, die, run_dir, seed

PROP = "C09"
SHAPES = ["plain", "plain", "abs", "repeat_abs", "chain", "eq", "nonconvex", "abs", "chain_abs"]


def gen_cases(tier):
    sd = seed()
    n = 420 if tier == "quick" else 12000
    out = []
    for i in range(n):
        rng = family.rng_for(sd, PROP, i)
        shape = SHAPES[i % len(SHAPES)]
        rel = gram.gen_rel(rng, "abs" if shape == "plain" and False else shape if shape != "plain" else "plain")
        strings = []
        for j in range(4):
            s = gram.render(rel, rng, j + 4 * (i % 3))
            if s not in strings:
                strings.append(s)
        out.append({"id": i + 1, "rel": rel, "strings": strings, "malformed": [gram.MALFORM[(i + j) % len(gram.MALFORM)](strings[0]) for j in range(1 if tier == "quick" else 2)]})
        if i % 10 == 0:
            # strings that differ only by a blank but mean different things, parsed one after the other
            out[-1]["confusable"] = gram.confusable(rng)
    return out


def parse_once(s):
    from pacti.terms.polyhedra import PolyhedralTermList, serializer
    from pacti.utils.errors import PolyhedralSyntaxConvexException, PolyhedralSyntaxException

    try:
        return "rows", C.prows(PolyhedralTermList(serializer.polyhedral_termlist_from_string(s)))
    except PolyhedralSyntaxConvexException:
        return "convex", []
    except PolyhedralSyntaxException:
        return "syntax", []
    except Exception as e:  # noqa: BLE001
        return type(e).__name__, []


D_IR = 4 ** 5


def ir_form(constant, factors):
    from fractions import Fraction as F

    co = {}
    for v, a in factors.items():
        x = F(a) * D_IR
        if x.denominator != 1:
            return None
        co[str(v)] = int(x)
    c = F(constant) * D_IR
    if c.denominator != 1:
        return None
    return {"co": co, "c": int(c), "d": D_IR}


def real_ir(case):
    """the IR the real parse actions build for the first spelling (None if it does not parse or is not exactly representable)"""
    import pyparsing as pp
    from pacti.terms.polyhedra.syntax.grammar import expression

    s = case["strings"][0]
    try:
        e = expression.parse_string(s, parse_all=True)[0]
    except (pp.ParseBaseException, ValueError):
        return None
    sides = []
    raw = [e.lhs, e.rhs] if hasattr(e, "lhs") else list(e.sides)
    for sd_ in raw:
        tl = sd_ if hasattr(sd_, "factors") else sd_.term_list
        f = ir_form(tl.constant, tl.factors)
        atl = []
        for at in ([] if hasattr(sd_, "factors") else sd_.absolute_term_list):
            b = ir_form(at.term_list.constant, at.term_list.factors)
            k = ir_form(1.0 if at.coefficient is None else at.coefficient, {})
            if b is None or k is None:
                return None
            atl.append({"body": b, "k": k})
        if f is None:
            return None
        sides.append({"tl": f, "atl": atl})
    return {"id": case["id"], "ev": [{"rel": case["rel"], "sides": sides, "groups": ["ir"], "string": s}]}


def ir_conformance(rep, rd, cases, tier):
    from tlcrun import run_tlc, stats_of, require_clean

    res = run_tlc("ParserIRCheck", "ParserIRCheck.cfg" if tier == "quick" else "ParserIRCheck_thorough.cfg", rd, timeout=3000, gc="parallel")
    require_clean(res, "ParserIRCheck")
    st = stats_of(res)
    st["invariants_violated"] = res["invariant_violated"]
    rep.add_tlc(st)
    if res["invariant_violated"]:
        print("SPEC-DRIFT property=C09 design-level invariant %s violated in ParserIR.tla" % res["invariant_violated"], flush=True)
    traces = [t for t in family.pmap(real_ir, cases, chunksize=8) if t]
    v = family.judge_traces(rep, "TraceParserIR", "TraceParserIR.cfg", traces, rd, batch=600)
    drift = 0
    for t in traces:
        if v[(t["id"], 1, "ir")][0] != "ok":
            drift += 1
            if drift <= 3:
                print("SPEC-DRIFT property=C09 the IR built by the real parse actions differs from ParserIR.tla for: %s" % t["ev"][0]["string"], flush=True)
    rep.cov["parser_ir_conformance"] = {"strings": len(traces), "spec_drift": drift}
    return len(traces)


def run_case(case):
    rel = case["rel"]
    names = gram.rel_vars(rel)
    res = [parse_once(s) for s in case["strings"]]
    evs = []
    for j, (s, (oc, rows)) in enumerate(zip(case["strings"], res)):
        oc2, rows2 = parse_once(s)
        ev = {"kind": "parse", "string": s, "rel": rel, "outcome": oc, "rows": rows, "rows2": rows2 if oc2 == oc else [{"co": {}, "c": -1, "k": 1}],
              "names": sorted(set(names) | {v for r in rows for v in r["co"]}), "siblings": [r[0] for k, r in enumerate(res) if k != j],
              "hints": {"wit": dict(H.NONE), "regions": {}}, "groups": ["parse"]}
        if oc == "rows" and all(r["_ok"] for r in rows):
            ev["hints"] = gram.parse_hints(rel, rows, ev["names"])
        evs.append(ev)
    for rel2, s in case.get("confusable", []):
        oc, rows = parse_once(s)
        names2 = gram.rel_vars(rel2)
        ev = {"kind": "parse", "string": s, "rel": rel2, "outcome": oc, "rows": rows, "rows2": rows, "names": sorted(set(names2) | {v for r in rows for v in r["co"]}),
              "siblings": [], "hints": {"wit": dict(H.NONE), "regions": {}}, "groups": ["parse"]}
        if oc == "rows" and all(r["_ok"] for r in rows):
            ev["hints"] = gram.parse_hints(rel2, rows, ev["names"])
        evs.append(ev)
    for s in case["malformed"]:
        oc, rows = parse_once(s)
        evs.append({"kind": "malformed", "string": s, "rel": rel, "outcome": oc, "rows": rows, "rows2": rows, "names": names, "siblings": [],
                    "hints": {"wit": dict(H.NONE), "regions": {}}, "groups": ["parse"]})
    if case.get("only_event"):
        evs = evs[case["only_event"] - 1: case["only_event"]]
    return {"id": case["id"], "ev": evs}


def main(tier, replay=None):
    rep = Report(PROP, tier)
    rd = run_dir(PROP)
    cases = gen_cases(tier)
    if replay:
        with open(replay) as f:
            cases = [json.load(f)["case"]["case"]]
    traces = family.pmap(run_case, cases, chunksize=2)
    verdicts = family.judge_traces(rep, "TraceParse", "TraceParse.cfg", traces, rd, batch=300)
    counts, nontriv, n_ev = {}, set(), 0
    by_id = {c["id"]: c for c in cases}
    for t in traces:
        for l, ev in enumerate(t["ev"], 1):
            n_ev += 1
            kind, detail = verdicts[(t["id"], l, "parse")]
            counts["%s/%s:%s" % (ev["kind"], kind, detail.split(":")[0])] = counts.get("%s/%s:%s" % (ev["kind"], kind, detail.split(":")[0]), 0) + 1
            if kind == "ok":
                nontriv.add(digest(ev["string"]))
            if kind == "malformed":
                die("C09 malformed event: %s" % detail)
            if kind == "violation":
                if detail.startswith("exception:") and False:
                    continue
                case = dict(by_id[t["id"]])
                case["only_event"] = l
                rep.violation({"kind": ev["kind"], "law": detail.split(":")[0], "outcome": ev["outcome"]},
                              {"case": case, "string": ev["string"], "event": family.clean_json(ev), "verdict": [kind, detail]})
            if l == 1 and len(rep.cov["samples"]) < 3:
                rep.sample({"string": ev["string"], "tree": ev["rel"], "outcome": ev["outcome"], "rows": [__import__("rows").row_str(r) for r in ev["rows"]], "verdict": [kind, detail]})
    from vcommon import drift_tier

    n_ir = drift_tier(PROP, "parser-IR", lambda: ir_conformance(rep, rd, cases, tier), default=0) if not replay else 0
    shutil.rmtree(rd, ignore_errors=True)
    return rep.finish({
        "evaluations": n_ev,
        "distinct_nontrivial": len(nontriv),
        "traces_validated_against_impl": len(traces) + n_ir,
        "rule": "expression trees of the documented grammar (terms, signed terms, k*(...), k|...|, parenthesised constant arithmetic, chained <= / >=, "
                "equalities; repeated absolute-value terms; non-convex uses), each rendered in up to 4 spellings (spacing, 2x / 2*x / 2.0 x / (4/2)x / 2e0*x, "
                "= / ==) plus a malformed variant; TLC reads the tree itself (Grammar.tla, real absolute value) and accepts the parsed rows only with "
                "exact certificates of equivalence in every sign region, or refutes them at a point; non-trivial = judged ok, distinct by string",
        "verdict_counts": counts,
        "exhaustive": False,
    })
