"""C06 -- results are well formed with the prescribed interface; meaningless requests rejected.

R1  spec/Itf.tla: every role assignment of N variables (TLC, exhaustive): the list algebra of the
    code equals the worded prescription and is well formed exactly for meaningful requests.
R2/R3  (a) symbolic contents: every outcome path of the real compose/quotient/merge plus the
    constructor, refines, copy and rename on generated topologies, judged by TLC
    (TraceAlgebra!OblJudge/ItfJudge); (b) polyhedral contents: group `itf` of TraceOps.tla.
"""
from __future__ import annotations

import json
import os
import shutil

import family
import gen
import ops
from props import c01, c02, c05, c08, c16
from tlcrun import parse_verdicts, run_tlc, stats_of, require_clean
from vcommon import Report, digest, die, run_dir, seed

PROP = "C06"
NAMES = ["x", "y", "z", "u", "v"]


def gen_itf_init(rng, i):
    nv = rng.choice([2, 3, 3, 4])
    vs = NAMES[:nv]
    kind = ["construct", "construct", "refines", "copy", "rename", "rename"][i % 6]

    def contract(valid):
        roles = {v: rng.choice("IIOON") for v in vs}
        inv = [v for v in vs if roles[v] == "I"]
        outv = [v for v in vs if roles[v] == "O"]
        a = [{"tag": 1, "vars": c05.sub_nonempty(rng, inv)}] if inv and rng.random() < 0.7 else []
        g = [{"tag": 2, "vars": c05.sub_nonempty(rng, inv + outv)}] if inv + outv and rng.random() < 0.8 else []
        if not valid:
            fault = rng.choice(["dup_in", "dup_out", "dup_many", "dup_many", "dup_many", "overlap", "stray_a", "stray_g", "none"])
            if fault == "dup_in" and inv:
                inv = inv + [rng.choice(inv)]
            elif fault == "dup_out" and outv:
                outv = outv + [rng.choice(outv)]
            elif fault == "dup_many" and (len(inv) > 1 or len(outv) > 1 or (inv and outv)):
                # several names repeated at once (in one list or in both), one of them possibly three times
                how = rng.choice(["two_in_one", "both_lists", "thrice"])
                big = inv if len(inv) >= len(outv) else outv
                if how == "two_in_one" and len(big) > 1:
                    big.extend(rng.sample(big, 2))
                    rng.shuffle(big)
                elif how == "both_lists" and inv and outv:
                    inv, outv = inv + [rng.choice(inv)], outv + [rng.choice(outv)]
                else:
                    v = rng.choice(big)
                    big.extend([v, v])
            elif fault == "overlap" and inv:
                outv = outv + [rng.choice(inv)]
            elif fault == "stray_a":
                a = a + [{"tag": 3, "vars": [rng.choice(outv + ["w"])]}]
            elif fault == "stray_g":
                g = g + [{"tag": 3, "vars": ["w"]}]
        return {"inv": inv, "outv": outv, "a": a, "g": g}

    empty = {"inv": [], "outv": [], "a": [], "g": []}
    if kind == "construct":
        return {"op": kind, "c1": contract(rng.random() < 0.3), "c2": empty, "opt": []}
    if kind == "refines":
        c1 = contract(True)
        if rng.random() < 0.5:
            c2 = {"inv": list(reversed(c1["inv"])), "outv": list(c1["outv"]), "a": [], "g": []}
        else:
            c2 = contract(True)
        return {"op": kind, "c1": c1, "c2": c2, "opt": []}
    if kind == "copy":
        return {"op": kind, "c1": contract(True), "c2": empty, "opt": []}
    c1 = contract(True)
    pool = vs + ["w"]
    return {"op": "rename", "c1": c1, "c2": empty, "opt": [rng.choice(pool), rng.choice(pool)]}


def sym_paths(item):
    import symdrv

    it = item["init"]
    if it["op"] in ("compose", "quotient", "merge"):
        return symdrv.all_paths(it, max_paths=item["cap"])
    return symdrv.itf_paths(it)


def gen_alg_init(rng, i):
    """topologies with up to 4 variables and thin contents (interface behaviour is what matters here)."""
    nv = [2, 3, 3, 4][i % 4]
    old = c05.NAMES
    c05.NAMES = NAMES
    try:
        it = c05.gen_init(rng, nv, 1, ["compose", "quotient", "merge"])
    finally:
        c05.NAMES = old
    return it


def numeric_cases(tier, sd):
    """polyhedral contents: reuse the generators of the operation families, group itf only."""
    n = 40 if tier == "quick" else 1500
    out = []
    for mod, cnt in ((c01, n), (c02, n), (c08, n), (c16, n)):
        cs = mod.gen_cases("quick")[:cnt] if tier == "quick" else mod.gen_cases("thorough")[:cnt]
        for c in cs:
            out.append((mod.PROP, c))
    return out


def run_numeric(item):
    pid, case = item
    mod = {"C01": c01, "C02": c02, "C08": c08, "C16": c16}[pid]
    t = mod.run_case(case)
    for ev in t["ev"]:
        ev["groups"] = ["itf"]
        ev["hints"] = {}
    return t


def main(tier, replay=None):
    rep = Report(PROP, tier)
    rd = run_dir(PROP)
    sd = seed()
    if replay:
        with open(replay) as f:
            rc = json.load(f)["case"]
        if "init" not in rc:
            die("C06 replay: numeric itf cases are replayed with the owning family's check (see 'family' in the file)")
        inits = [rc["init"]]
    else:
        for cfg in (["Itf.cfg"] if tier == "quick" else ["Itf.cfg", "Itf5.cfg"]):
            res = run_tlc("Itf", cfg, rd, timeout=3000, gc="parallel", heap="12g")
            require_clean(res, "Itf/" + cfg)
            st = stats_of(res)
            rep.add_tlc(st)
            if res["invariant_violated"]:
                print("SPEC-DRIFT property=C06 design-level invariant %s violated in %s" % (res["invariant_violated"], cfg), flush=True)
        n = 900 if tier == "quick" else 20000
        inits = []
        for i in range(n):
            rng = family.rng_for(sd, PROP, i)
            inits.append(gen_alg_init(rng, i) if i % 3 else gen_itf_init(rng, i // 3))
    work = [{"init": it, "cap": 60 if tier == "quick" else 400} for it in inits]
    allp = family.pmap(sym_paths, work, chunksize=8)
    paths, owner = [], []
    for k, ps in enumerate(allp):
        for p in ps:
            p["id"] = len(paths) + 1
            paths.append(p)
            owner.append(k)
    verd = {}
    B = 6000
    for b0 in range(0, len(paths), B):
        path = os.path.join(rd, "itf-%d.ndjson" % b0)
        with open(path, "w") as f:
            for p in paths[b0:b0 + B]:
                f.write(json.dumps(p, separators=(",", ":")) + "\n")
        res = run_tlc("TraceAlgebra", "TraceAlgebra5.cfg", rd, env={"TRACE_FILE": path}, timeout=3000)
        if res["timed_out"] or res["error"] or res["rc"] != 0:
            die("TraceAlgebra failed rc=%s\n%s" % (res["rc"], "\n".join(res["out"].splitlines()[-30:])))
        rep.add_tlc(stats_of(res))
        for pid, lst in parse_verdicts(res["out"]).items():
            for f_ in lst:
                verd.setdefault(int(pid), {})[f_[1]] = (f_[2], f_[3] if len(f_) > 3 else "")
        os.remove(path)
    counts, nontriv, drift = {}, set(), 0
    for p, k in zip(paths, owner):
        vv = verd.get(p["id"], {})
        if "obl" not in vv:
            die("TraceAlgebra: no verdict for path %d" % p["id"])
        kind, detail = vv["obl"]
        key = "sym/%s/%s:%s" % (p["op"], kind, detail.split(":")[0] + (":" + detail.split(":")[1] if kind == "violation" and ":" in detail else ""))
        counts[key] = counts.get(key, 0) + 1
        conf = vv.get("conform", ("drift", "stuck"))
        if conf[0] == "drift":
            drift += 1
        nontriv.add(digest([p["op"], p["c1"]["inv"], p["c1"]["outv"], p["c2"]["inv"], p["c2"]["outv"], p["opt"], p["exc"], p["res"]["inv"], p["res"]["outv"]]))
        if kind == "violation" and detail.startswith("itf:"):
            rep.violation({"op": p["op"], "kind": ":".join(detail.split(":")[:2]), "layer": "symbolic"}, {"init": inits[k], "path": p, "verdict": [kind, detail]})
        if len(rep.cov["samples"]) < 2 and p["op"] in ("compose", "rename") and p["exc"] == "none":
            rep.sample({"path": p, "obl": [kind, detail]})
    n_num = 0
    if not replay:
        items = numeric_cases(tier, sd)
        traces = family.pmap(run_numeric, items, chunksize=2)
        for j, t in enumerate(traces):
            t["id"] = j + 1
        verdicts = family.judge_traces(rep, "TraceOps", "TraceOps.cfg", traces, rd, batch=400)
        for (pid, case), t in zip(items, traces):
            for l, ev in enumerate(t["ev"], 1):
                n_num += 1
                kind, detail = verdicts[(t["id"], l, "itf")]
                key = "num/%s/%s:%s" % (ev["op"], kind, detail)
                counts[key] = counts.get(key, 0) + 1
                nontriv.add(digest([ev["op"], ev["c1"]["inv"], ev["c1"]["outv"], ev["c2"]["inv"], ev["c2"]["outv"], ev.get("keep"), ev.get("addl"), ev.get("s"), ev.get("t"), ev["exc"]]))
                if kind == "violation" and not detail.startswith("exception:"):
                    rep.violation({"op": ev["op"], "kind": detail, "layer": "polyhedral"},
                                  {"family": pid, "case": case, "event": family.clean_json(ev), "verdict": [kind, detail]})
    n_lists = 0
    if not replay:
        import listdrv

        from vcommon import drift_tier

        n_lists, _ = drift_tier(PROP, "list-operations", lambda: listdrv.conformance(rep, rd, PROP))     # the list helpers every interface formula is computed with
        n_itf, _ = drift_tier(PROP, "interface-computation", lambda: __import__("itfdrv").conformance(rep, rd, PROP))   # every role assignment of Itf.tla into the real operations
        n_lists += n_itf
    shutil.rmtree(rd, ignore_errors=True)
    return rep.finish({
        "evaluations": len(paths) + n_num + 3 * n_lists,
        "distinct_nontrivial": len(nontriv),
        "traces_validated_against_impl": len(paths) + n_num + n_lists,
        "rule": "symbolic: topology of <= 4 variables x operation (compose/quotient/merge with every primitive outcome path; constructor with "
                "planted duplicates/overlaps/stray variables; refines across interfaces; copy; rename) -- polyhedral: the pairs of the C01/C02/C08/C16 "
                "generators judged on the interface group only; distinct by (operation, interfaces, options, outcome interface)",
        "verdict_counts": counts,
        "spec_drift": drift,
        "exhaustive": False,
    })
