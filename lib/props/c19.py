"""C19 -- equality, hashing and copying of terms, lists and contracts are coherent."""
from __future__ import annotations

import json
import shutil

import family
import gen
from vcommon import Report, digest, die, run_dir, seed

PROP = "C19"


def num(x):
    x = float(x)
    return repr(x + 0.0)   # -0.0 and 0.0 are the same number


def d_term(t):
    return {"co": {str(k): num(v) for k, v in sorted(t.variables.items(), key=lambda kv: str(kv[0]))}, "c": num(t.constant)}


def d_list(tl):
    return {"terms": [d_term(t) for t in tl.terms]}


def d_contract(c):
    return {"inv": [str(v) for v in c.inputvars], "outv": [str(v) for v in c.outputvars], "a": [d_term(t) for t in c.a.terms], "g": [d_term(t) for t in c.g.terms]}


def matrix(objs):
    eq = []
    for x in objs:
        row = []
        for y in objs:
            try:
                row.append("true" if x == y else "false")
            except Exception as e:  # noqa: BLE001
                row.append(type(e).__name__)
        eq.append(row)
    hs, ids = [], {}
    for x in objs:
        h = hash(x)
        hs.append(ids.setdefault(h, len(ids) + 1))
    return eq, hs


def edits_raw(rng, raw):
    """single-field edits of a raw row (co, c)"""
    co, c = raw
    v = rng.choice(sorted(co))
    out = [({**co, v: co[v] + 1}, c), (dict(co), c + 1), ({**co, v: co[v] * (1 + 2.0**-17)}, c), (dict(co), c + 2.0**-16)]
    if len(co) > 1:
        out.append(({k: co[k] for k in reversed(sorted(co))}, c))    # same term, other insertion order
        ks = sorted(co)
        if co[ks[0]] != co[ks[1]]:
            out.append(({**co, ks[0]: co[ks[1]], ks[1]: co[ks[0]]}, c))   # the same coefficients handed to other variables: a different term
    return out


def run_case(case):
    from pacti.contracts import PolyhedralIoContract, PolyhedralIoContractCompound
    from pacti.iocontract import Var
    from pacti.terms.polyhedra import PolyhedralTermList

    rng = family.rng_for(case["seed"], PROP, case["id"])
    d = case["raw"]
    evs = []
    # --- terms
    t0 = d["g"][0]
    raws = [t0, t0] + edits_raw(rng, t0) + [({k: v for k, v in t0[0].items()}, -0.0 if t0[1] == 0 else t0[1])]
    if t0[1] == 0:
        raws.append((dict(t0[0]), 0.0))
    terms = [gen.mk_term(r) for r in raws]
    terms.append(terms[0].copy())
    copies = [[1, len(terms)], [1, 2]]
    eq, hs = matrix(terms)
    evs.append({"kind": "term", "objs": [d_term(t) for t in terms], "eq": eq, "hash": hs, "copies": copies})
    # --- terms and lists without variables (what x + 3 <= x leaves): only the constant tells them apart
    k1, k2 = rng.choice([3, 1, 0]), rng.choice([-2, -1, 5])
    frees = [gen.mk_term(r) for r in [({}, k1), ({}, k1), ({}, k2), ({}, 0), ({}, -0.0), t0]]
    frees.append(frees[0].copy())
    eq, hs = matrix(frees)
    evs.append({"kind": "term", "objs": [d_term(t) for t in frees], "eq": eq, "hash": hs, "copies": [[1, 7], [1, 2]]})
    flists = [gen.mk_list(x) for x in ([({}, k1)], [({}, k1)], [({}, k2)], [({}, k1), t0], [({}, k2), t0], [t0, ({}, k1)], [t0])]
    eq, hs = matrix(flists)
    evs.append({"kind": "list", "objs": [d_list(x) for x in flists], "eq": eq, "hash": hs, "copies": [[1, 2]]})
    # --- terms and lists produced by an operation: a renaming that makes two coefficients cancel
    from pacti.iocontract import Var as _V
    base_t = gen.mk_term(({"x": 1, "y": -1, "z": 4}, 3))
    ren = [base_t.rename_variable(_V("y"), _V("x")), gen.mk_term(({"z": 4}, 3)), base_t.rename_variable(_V("y"), _V("q")), gen.mk_term(({"x": 1, "q": -1, "z": 4}, 3))]
    ren += [ren[0].copy(), ren[2].copy()]
    eq, hs = matrix(ren)
    evs.append({"kind": "term", "objs": [d_term(t) for t in ren], "eq": eq, "hash": hs, "copies": [[1, 5], [3, 6], [1, 2], [3, 4]]})
    base_l = gen.mk_list([({"x": 1, "y": -1, "z": 4}, 3), ({"y": 2}, 1)])
    rl = [base_l.rename_variable(_V("y"), _V("x")), gen.mk_list([({"z": 4}, 3), ({"x": 2}, 1)])]
    rl.append(rl[0].copy())
    eq, hs = matrix(rl)
    evs.append({"kind": "list", "objs": [d_list(x) for x in rl], "eq": eq, "hash": hs, "copies": [[1, 3], [1, 2]]})
    # --- lists
    rows = d["g"] + d["a"]
    L0 = gen.mk_list(rows)
    lists = [L0, L0.copy(), gen.mk_list(rows)]
    for r in edits_raw(rng, rows[0]):
        lists.append(gen.mk_list([r] + rows[1:]))
    lists.append(gen.mk_list(list(reversed(rows))))
    lists.append(gen.mk_list(rows[:-1]) if len(rows) > 1 else gen.mk_list(rows + rows))
    lists.append(gen.mk_list([(dict(rows[0][0]), rows[0][1] + 0.0)] + rows[1:]))
    eq, hs = matrix(lists)
    evs.append({"kind": "list", "objs": [d_list(x) for x in lists], "eq": eq, "hash": hs, "copies": [[1, 2], [1, 3]]})
    # --- contracts
    c0 = gen.mk_contract(d)
    objs = [c0, c0.copy(), gen.mk_contract(d), PolyhedralIoContract.from_dict(c0.to_machine_dict())]
    copies = [[1, 2], [1, 3], [1, 4]]

    def variant(**kw):
        dd = {k: (list(v) if isinstance(v, list) else v) for k, v in d.items()}
        dd.update(kw)
        try:
            objs.append(gen.mk_contract(dd))
        except ValueError:
            pass

    variant(outv=d["outv"] + ["extra_out"])
    variant(inv=d["inv"] + ["extra_in"])
    variant(outv=list(reversed(d["outv"])) if len(d["outv"]) > 1 else d["outv"] + ["o2"])
    variant(inv=list(reversed(d["inv"])) if len(d["inv"]) > 1 else d["inv"] + ["i2"])
    if d["outv"]:
        variant(outv=d["outv"][:-1] + ["renamed_out"], g=[({("renamed_out" if k == d["outv"][-1] else k): v for k, v in co.items()}, c) for co, c in d["g"]])
    for r in edits_raw(rng, d["g"][0])[:3]:
        variant(g=[r] + d["g"][1:])
    if d["a"]:
        variant(a=[(dict(d["a"][0][0]), d["a"][0][1] + 1)] + d["a"][1:])
    variant(g=list(reversed(d["g"])))
    # the same contract with a zero bound written as -0.0 (the string parser produces it), in the guarantees and in the assumptions
    if d["g"][0][1] == 0:
        variant(g=[(dict(d["g"][0][0]), -0.0)] + d["g"][1:])
    if d["inv"]:
        z_pos = {**d, "a": d["a"] + [({d["inv"][0]: 1}, 0.0)]}
        z_neg = {**d, "a": d["a"] + [({d["inv"][0]: 1}, -0.0)]}
        for dd_ in (z_pos, z_neg):
            try:
                objs.append(gen.mk_contract(dd_))
            except ValueError:
                pass
    # a variable moved across the input / output boundary, the concatenation of the two lists unchanged
    variant(inv=d["inv"][:-1], outv=[d["inv"][-1]] + d["outv"])
    variant(inv=d["inv"] + [d["outv"][0]], outv=d["outv"][1:])
    variant(a=d["a"] + [({}, 2)])            # assumptions that differ only in a row without variables
    variant(a=d["a"] + [({}, 7)])
    eq, hs = matrix(objs)
    evs.append({"kind": "contract", "objs": [d_contract(x) for x in objs], "eq": eq, "hash": hs, "copies": copies})
    # --- a contract edited in place after it was hashed (IoContract.simplify() replaces the guarantees)
    dup = (dict((k, 2 * v) for k, v in d["g"][0][0].items()), 2 * d["g"][0][1] + 1)      # implied by the first guarantee
    d2 = {k: (list(v) if isinstance(v, list) else v) for k, v in d.items()}
    d2["g"] = d["g"] + [dup]
    try:
        cin = gen.mk_contract(d2, simplify=False)
        hash(cin)
        held = {cin: 1}                      # used as a dictionary key before it is edited
        cin.simplify()
        objs2 = [cin, gen.mk_contract(d2), gen.mk_contract(d), cin.copy()]
        eq, hs = matrix(objs2)
        evs.append({"kind": "contract", "objs": [d_contract(x) for x in objs2], "eq": eq, "hash": hs, "copies": []})
    except ValueError:
        pass
    if case["id"] % 3 == 0:          # (each == on compound contracts solves LPs per pair of alternatives: a third of the cases carry this family)
        # --- compound contracts: interface lists field-wise, assumptions / guarantees by meaning (unions of intervals with
        #     integer end points; NestedTermList equality is semantic by design)
        def comp(inv, outv, a, g, gvar=None):
            def alts(v, ivs):
                return [["-%s <= %d" % (v, -lo), "%s <= %d" % (v, hi)] for lo, hi in ivs]
            return PolyhedralIoContractCompound.from_strings(alts(inv[0], a), alts(gvar or outv[0], g), inv, outv)

        def intervals(n, disjoint):
            out, lo = [], rng.randint(-12, -6)
            for _ in range(n):
                w = rng.randint(1, 3)
                out.append([lo, lo + w])
                lo += w + (rng.randint(1, 3) if disjoint else rng.randint(-1, 2))
            return out

        a0, g0 = intervals(rng.randint(1, 3), True), intervals(rng.randint(2, 3), rng.random() < 0.5)
        g_late = [list(x) for x in g0]
        g_late[-1] = [g_late[-1][0] + 20, g_late[-1][1] + 20]            # differs in the LAST alternative only
        g_first = [list(x) for x in g0]
        g_first[0] = [g_first[0][0] - 20, g_first[0][1] - 20]            # differs in the FIRST alternative only
        a_late = [list(x) for x in a0]
        a_late[-1] = [a_late[-1][0] + 20, a_late[-1][1] + 21]
        specs = [(["i"], ["o"], a0, g0), (["i"], ["o"], a0, g0), (["i"], ["o"], list(reversed(a0)), list(reversed(g0))),
                 (["i"], ["o"], a0, g_late), (["i"], ["o"], a0, g_first), (["i"], ["o"], a_late, g0),
                 (["i"], ["o"], a0, g0[:-1]), (["i"], ["o"], a0, g0 + [[g0[-1][1] + 5, g0[-1][1] + 6]]),
                 (["i"], ["o", "p"], a0, g0), (["i", "j"], ["o"], a0, g0)]
        # guarantees that speak about the INPUT and differ only outside the assumed region
        amax = max(h for _, h in a0)
        gin1, gin2 = [[-40, amax + 2]], [[-40, amax + 5]]
        cs, descr = [], []
        for inv_, outv_, a_, g_, gv in [x + ("o",) for x in specs] + [(["i"], ["o"], a0, gin1, "i"), (["i"], ["o"], a0, gin2, "i"), (["i"], ["o"], a0, gin1, "i")]:
            try:
                cs.append(comp(inv_, outv_, a_, g_, gv))
                descr.append({"inv": inv_, "outv": outv_, "a": a_, "g": g_, "gv": gv})
            except ValueError:
                pass
        eqc = []
        for x in cs:
            row = []
            for y in cs:
                try:
                    row.append("true" if x == y else "false")
                except Exception as e:  # noqa: BLE001
                    row.append(type(e).__name__)
            eqc.append(row)
        # compound contracts offer no hash on the pinned tree (TypeError): nothing to be coherent with.  Where hash() answers, equal ones hash equally.
        try:
            ids = {}
            hsc = [ids.setdefault(hash(x), len(ids) + 1) for x in cs]
        except TypeError:
            hsc = [1] * len(cs)
        evs.append({"kind": "compound", "objs": descr, "eq": eqc, "hash": hsc, "copies": [[1, 2]] if len(cs) > 1 and descr[1] == descr[0] else []})
        # the same for their guarantee unions (NestedTermList: == by meaning)
        try:
            ids = {}
            hsn = [ids.setdefault(hash(x.g), len(ids) + 1) for x in cs]
            eqn = [["true" if x.g == y.g else "false" for y in cs] for x in cs]
            if any(eqn[i][j] == "true" and hsn[i] != hsn[j] for i in range(len(cs)) for j in range(len(cs))):
                evs.append({"kind": "compound", "objs": descr, "eq": eqc, "hash": hsn, "copies": [], "what": "guarantee unions"})
        except Exception:  # noqa: BLE001 - unhashable, or == declined: nothing offered, nothing judged
            pass
    for e in evs:
        e["groups"] = ["eq"]
    return {"id": case["id"], "ev": evs}


def gen_cases(tier):
    sd = seed()
    n = 120 if tier == "quick" else 5000
    out = []
    for i in range(n):
        rng = family.rng_for(sd, PROP, "g", i)
        inv = ["i", "j"][: rng.randint(1, 2)]
        outv = ["o", "p"][: rng.randint(1, 2)]
        for _ in range(30):
            d = gen.contract_raw(rng, inv, outv, na=(1, 2), ng=(2, 3), band=0.3, dyadic=0.2 if i % 4 == 0 else 0.0)
            if i % 3 == 0:
                d["g"][0] = (d["g"][0][0], 0)      # a zero constant: -0.0 / 0.0 variants
            try:
                c = gen.mk_contract(d)
            except ValueError:
                continue
            if len(c.g.terms) == len(d["g"]):      # nothing simplified away, so rebuilt variants are comparable
                break
        else:
            continue
        out.append({"id": i + 1, "raw": d, "seed": sd})
    return out


def main(tier, replay=None):
    rep = Report(PROP, tier)
    rd = run_dir(PROP)
    cases = gen_cases(tier)
    if replay:
        with open(replay) as f:
            cases = [json.load(f)["case"]["case"]]
    traces = family.pmap(run_case, cases, chunksize=2)
    verdicts = family.judge_traces(rep, "TraceEq", "TraceEq.cfg", traces, rd, batch=300)
    counts, nontriv, n_ev = {}, set(), 0
    by_id = {c["id"]: c for c in cases}
    for t in traces:
        for l, ev in enumerate(t["ev"], 1):
            n_ev += 1
            kind, detail = verdicts[(t["id"], l, "eq")]
            counts["%s/%s:%s" % (ev["kind"], kind, detail)] = counts.get("%s/%s:%s" % (ev["kind"], kind, detail), 0) + 1
            nontriv.add(digest([ev["kind"], ev["objs"]]))
            if kind == "violation":
                rep.violation({"kind": ev["kind"], "law": detail}, {"case": by_id[t["id"]], "event": ev, "verdict": [kind, detail]})
            if ev["kind"] == "contract" and len(rep.cov["samples"]) < 2:
                rep.sample({"kind": ev["kind"], "objects": ev["objs"][:6], "eq_matrix": [r[:6] for r in ev["eq"][:6]], "hash_ids": ev["hash"][:6]})
    shutil.rmtree(rd, ignore_errors=True)
    # sessions around hashing and the in-place IoContract.simplify(): "equal objects hash equally" at every point of a history
    from props import c13
    sess = c13.main(tier, None, prop=PROP, rep=rep) if not replay else {}
    return rep.finish({
        "sessions": sess,
        "evaluations": n_ev,
        "distinct_nontrivial": len(nontriv),
        "traces_validated_against_impl": len(traces),
        "objects_compared": sum(len(e["objs"]) for t in traces for e in t["ev"]),
        "rule": "per generated contract: families of terms / lists / contracts / compound contracts obtained by single-field edits (one coefficient, "
                "one constant by 1 and by 2^-16, a near twin by 2^-17, insertion order of a term's variables, row order, input / output lists "
                "extended, reversed, renamed, -0.0 vs 0.0), copies, rebuilt equals and dictionary round trips; the full == matrix and hashes are "
                "recorded; TLC computes field-wise equality itself and checks soundness, copies, reflexivity, symmetry, transitivity, hashing",
        "verdict_counts": counts,
        "exhaustive": False,
    })
