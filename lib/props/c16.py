"""C16 -- renaming variables is faithful substitution."""
import family
import gen
import ops
import opsprop
from vcommon import seed

PROP = "C16"


def gen_cases(tier):
    sd = seed()
    n = 300 if tier == "quick" else 8000
    cases = []
    for i in range(n):
        rng = family.rng_for(sd, PROP, i)
        inv = ["i", "s", "j"][: rng.randint(1, 3)]
        outv = ["o", "p"][: rng.randint(1, 2)]
        if i % 10 == 4:
            # coefficients that ADD UP to something small but not zero when one variable is renamed onto another (0.75 s - 0.5 t -> 0.25 t)
            ca, cb = rng.choice([(0.75, -0.5), (0.5, -0.25), (-1.5, 1.25), (0.25, 0.125), (2.5, -2.25)])
            d = {"inv": ["s", "t", "j"], "outv": ["o"], "a": [({"s": ca, "t": cb}, rng.randint(1, 3)), ({"j": 1}, 3)],
                 "g": [({"o": 1, "s": -ca, "t": -cb}, rng.randint(0, 2))]}
            pairs = [("s", "t"), ("t", "s"), ("s", "fresh")]
            try:
                gen.mk_contract(d)
                cases.append({"id": i + 1, "raw": d, "pairs": pairs, "lists": [[("s", "tmp_v"), ("tmp_v", "t")], [("s", "t"), ("t", "n1")]]})
                continue
            except ValueError:
                pass
        if i % 10 == 9:
            # coefficients that cancel when one variable is renamed onto another: the renamed row has no
            # variable left and means TRUE (bound >= 0) or FALSE (bound < 0)
            c_ = rng.choice([-1, -2, 1, 0])
            r_ = rng.random()
            if r_ < 0.35 and rng.random() < 0.5:
                # a contract that says nothing but "these two ports are equal": merged, every row reads 0 <= 0 -- true, and satisfiable
                x_, y_ = rng.choice([("o", "p"), ("p", "o")])
                rows = [({x_: 1, y_: -1}, 0), ({x_: -1, y_: 1}, 0)]
                d = {"inv": ["i"] if rng.random() < 0.5 else [], "outv": ["o", "p"], "a": [], "g": rows}
                pairs = [("p", "o"), ("o", "p"), ("o", "fresh")]
            elif r_ < 0.35:
                # nothing but the cancelling row: after the rename no variable is left in the whole contract (the bound that is left may be 0)
                c0 = rng.choice([0, 0, 1, 2])
                d = {"inv": ["i", "s"], "outv": [], "a": [({"i": 1, "s": -1}, c0)], "g": [({"i": 1, "s": -1}, c0 + rng.choice([0, 2]))] if rng.random() < 0.5 else []}
                pairs = [("i", "s"), ("s", "i"), ("i", "fresh")]
            elif r_ < 0.65:
                d = {"inv": ["i", "s", "j"], "outv": ["o"], "a": [({"i": 1, "s": -1}, c_), ({"j": 1}, 3)], "g": [({"o": 1, "j": -1}, 2)] if rng.random() < 0.5 else []}
                pairs = [("i", "s"), ("s", "i"), ("i", "fresh"), ("j", "i")]
            else:
                d = {"inv": ["i"], "outv": ["o", "p"], "a": [({"i": 1}, 4)], "g": [({"o": 1, "p": -1}, c_)]}
                pairs = [("o", "p"), ("p", "o"), ("o", "fresh")]
            try:
                gen.mk_contract(d)
                cases.append({"id": i + 1, "raw": d, "pairs": pairs, "lists": [[pairs[0], ("fresh", "n1")], [(pairs[0][0], "tmp_v"), ("tmp_v", pairs[0][1])]]})
                continue
            except ValueError:
                pass
        for _ in range(20):
            d = gen.contract_raw(rng, inv, outv, na=(0, 2), ng=(1, 3), band=0.3, dyadic=0.15 if i % 5 == 0 else 0.0)
            try:
                gen.mk_contract(d)
                break
            except ValueError:
                continue
        else:
            continue
        pairs = []
        if i % 3 == 1:
            # interface variables that no constraint mentions: renaming them is bookkeeping only, and still has to happen
            d["inv"], d["outv"] = d["inv"] + ["u"], d["outv"] + ["q"]
            inv, outv = d["inv"], d["outv"]
            pairs += [("u", "fresh"), ("u", rng.choice(inv[:-1])), ("u", rng.choice(outv)), ("q", "fresh"), ("q", rng.choice(outv[:-1])), ("q", rng.choice(inv))]
        for s in rng.sample(inv + outv, min(3, len(inv + outv))):
            pairs.append((s, "fresh"))
            pairs.append((s, rng.choice(inv)))
            pairs.append((s, rng.choice(outv)))
        pairs.append(("absent", "fresh"))
        pairs.append(("absent", rng.choice(inv)))
        pairs.append((rng.choice(inv), rng.choice(inv)))
        absent = [("absent", "fresh"), ("absent", rng.choice(inv)), ("absent", rng.choice(outv))]
        if tier == "quick":
            pairs = pairs[:4] + rng.sample(pairs[4:], 4) if i % 3 == 1 else rng.sample(pairs, 6)
        pairs = pairs + [p_ for p_ in absent if p_ not in pairs]
        allv = inv + outv
        a, b = rng.choice(allv), rng.choice(allv)
        if i % 3 == 1 and rng.random() < 0.7:
            b = rng.choice(["u", "q"])
        lists = [
            [(a, "tmp_v"), (b, a), ("tmp_v", b)],                      # swap through a temporary name
            [(a, "tmp_v"), ("tmp_v", a)],                              # there and back
            [(a, "n1"), ("n1", "n2"), ("n2", "n3")],                   # chain through names created on the way
            [(rng.choice(inv), rng.choice(outv)), (a, "n1")],          # clash in the first step
            [(a, "n1"), ("absent", "n2"), (b, b)],
            [(a, "t_v"), (b, a), (a, "t_v")],                          # the same pair twice, its source re-created in between
            [(a, "n1"), ("n1", a), (a, "n1")],
            [(a, "n1"), (a, rng.choice(inv))],                         # the second mapping names a source that is gone by then
        ]
        if tier == "quick":
            lists = rng.sample(lists, 4)
        cases.append({"id": i + 1, "raw": d, "pairs": pairs, "lists": lists})
    return cases


def run_case(case):
    evs = []
    for j, (s, t) in enumerate(case["pairs"], 1):
        if case.get("only_event") and case["only_event"] != j:
            continue
        evs.append(ops.ev_rename(gen.mk_contract(case["raw"]), s, t, ["faithful", "itf"]))
    for j, maps in enumerate(case.get("lists", []), len(case["pairs"]) + 1):
        if case.get("only_event") and case["only_event"] != j:
            continue
        evs.append(ops.ev_renames(gen.mk_contract(case["raw"]), maps, ["faithful", "itf"]))
    return {"id": case["id"], "ev": evs}


def main(tier, replay=None):
    return opsprop.run(
        PROP, tier, gen_cases(tier), run_case,
        "one trace per contract, one event per (source, target) class: target fresh / existing input / existing output, "
        "source absent, source = target, source an interface variable that no constraint mentions; TLC computes the substituted contract itself (coefficient addition) and demands "
        "semantic equality; non-trivial = source occurs in the contract and the call returned",
        replay=replay,
        # renaming as the code does it (term level: coefficients added, key order; interface lists in place), spec/Rename.tla
        extra=lambda rep, rd: __import__("renamedrv").conformance(rep, rd, PROP, tier),
        nontrivial=lambda ev: ev["exc"] == "none" and (ev["op"] == "renames" or (ev["s"] in (ev["c1"]["inv"] + ev["c1"]["outv"]) and ev["s"] != ev["t"])),
    )
