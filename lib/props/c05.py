"""C05 -- the algebra layer is sound for any constraint domain meeting the primitive specs.
Also serves C06 (interface part, symbolic contents) through the same machinery.

R1  TLC explores spec/Algebra.tla exhaustively (Horn entailment decides the obligations for ALL
    contents of the uninterpreted predicates).
R2/R3  the real IoContract is driven over a scripted symbolic TermList; every outcome path of
    compose_tactics / quotient_tactics / merge on each generated (topology, mention pattern,
    options) is recorded and judged by TLC (spec/TraceAlgebra.tla): obligations from the log
    alone (verdict tier) and conformance with the model (drift tier).
"""
from __future__ import annotations

import json
import os
import shutil

import family
from tlcrun import parse_verdicts, run_tlc, stats_of, require_clean
from vcommon import Report, digest, die, run_dir, seed

PROP = "C05"
NAMES = ["x", "y", "z"]


def sub_nonempty(rng, xs):
    xs = sorted(xs)
    k = rng.randint(1, len(xs))
    return sorted(rng.sample(xs, k))


def gen_init(rng, nv, maxg, ops):
    vs = NAMES[:nv]
    while True:
        r1 = {v: rng.choice("ION") for v in vs}
        r2 = {v: rng.choice("ION") for v in vs}
        if all(not (r1[v] == "N" and r2[v] == "N") for v in vs):
            break
    i1 = [v for v in vs if r1[v] == "I"]
    o1 = [v for v in vs if r1[v] == "O"]
    i2 = [v for v in vs if r2[v] == "I"]
    o2 = [v for v in vs if r2[v] == "O"]

    def lst(allowed, tag, n):
        out = []
        for j in range(n):
            if allowed and rng.random() < 0.75:
                out.append({"tag": tag + j, "vars": sub_nonempty(rng, allowed)})
        return out

    c1 = {"inv": i1, "outv": o1, "a": lst(i1, 1, 1), "g": lst(i1 + o1, 2, maxg)}
    c2 = {"inv": i2, "outv": o2, "a": lst(i2, 4, 1), "g": lst(i2 + o2, 5, maxg)}
    both_in = [v for v in i1 if v in i2]
    if both_in and rng.random() < 0.5:
        # the SAME assumption, word for word, in both contracts (a fan-out of a top-level input): it belongs to the result once, not never
        t = {"tag": 7, "vars": sub_nonempty(rng, both_in)}
        c1["a"] = c1["a"] + [dict(t)]
        c2["a"] = c2["a"] + [dict(t)]
    op = rng.choice(ops)
    if op == "merge":
        opt = []
    elif rng.random() < 0.5:
        opt = []
    else:
        opt = sorted(v for v in vs if rng.random() < 0.4)
        if rng.random() < 0.15:
            opt.append("w")          # a name of neither contract
    return {"op": op, "c1": c1, "c2": c2, "opt": opt, "simp": True if op == "merge" else rng.random() < 0.5}


def paths_of(init):
    import symdrv

    ps = symdrv.all_paths(init["init"], max_paths=init["cap"])
    return ps


def design_level(rep, rd, tier):
    """R1: exhaustive TLC runs of the algebra model."""
    cfgs = [("Alg_quick.cfg", 900)] if tier == "quick" else [("Alg_quick.cfg", 900), ("Alg_thorough.cfg", 3000), ("Alg_3v.cfg", 3000)]
    for cfg, to in cfgs:
        res = run_tlc("Algebra", cfg, rd, timeout=to, gc="parallel", heap="12g")
        require_clean(res, "Algebra/" + cfg)
        st = stats_of(res)
        st["invariants_violated"] = res["invariant_violated"]
        rep.add_tlc(st)
        if res["invariant_violated"]:
            # a design-level counterexample is a statement about the MODEL; it is reported as drift
            print("SPEC-DRIFT property=%s design-level invariant %s violated in %s" % (PROP, res["invariant_violated"], cfg), flush=True)
            rep.notes.append("design-level invariant violated: %s in %s" % (res["invariant_violated"], cfg))


def run(prop, tier, replay=None, judge_groups=("sound", "exact", "exception")):
    rep = Report(prop, tier)
    rd = run_dir(prop)
    sd = seed()
    if replay:
        with open(replay) as f:
            inits = [json.load(f)["case"]["init"]]
    else:
        design_level(rep, rd, tier)
        n = 500 if tier == "quick" else 12000
        inits = []
        for i in range(n):
            rng = family.rng_for(sd, "C05", i)
            nv = 2 if i % 3 else 3
            inits.append(gen_init(rng, nv, 2 if i % 2 else 1, ["compose", "quotient", "merge"] if prop == "C05" else ["compose", "quotient", "merge"]))
    cap = 400 if tier == "quick" else 4000
    work = [{"init": it, "cap": cap} for it in inits]
    allp = family.pmap(paths_of, work, chunksize=8)
    paths, owner = [], []
    for k, ps in enumerate(allp):
        for p in ps:
            p["id"] = len(paths) + 1
            paths.append(p)
            owner.append(k)
    # TLC judges the recorded paths in batches
    verd = {}
    B = 6000
    for b0 in range(0, len(paths), B):
        chunk = paths[b0:b0 + B]
        path = os.path.join(rd, "alg-%d.ndjson" % b0)
        with open(path, "w") as f:
            for p in chunk:
                f.write(json.dumps(p, separators=(",", ":")) + "\n")
        res = run_tlc("TraceAlgebra", "TraceAlgebra.cfg", rd, env={"TRACE_FILE": path}, timeout=3000)
        if res["timed_out"] or res["error"] or res["rc"] != 0:
            die("TraceAlgebra failed rc=%s\n%s" % (res["rc"], "\n".join(res["out"].splitlines()[-30:])))
        rep.add_tlc(stats_of(res))
        v = parse_verdicts(res["out"])
        for pid, lst in v.items():
            for f_ in lst:
                verd.setdefault(int(pid), {})[f_[1]] = (f_[2], f_[3] if len(f_) > 3 else "")
        os.remove(path)
    counts, drift, nontriv = {}, 0, set()
    for p, k in zip(paths, owner):
        vv = verd.get(p["id"], {})
        if "obl" not in vv:
            die("TraceAlgebra: no obligation verdict for path %d" % p["id"])
        kind, detail = vv["obl"]
        conf = vv.get("conform", ("drift", "stuck"))
        counts["obl/%s:%s" % (kind, detail)] = counts.get("obl/%s:%s" % (kind, detail), 0) + 1
        counts["conform/%s" % conf[0]] = counts.get("conform/%s" % conf[0], 0) + 1
        if conf[0] != "ok":
            drift += 1
            if drift <= 5:
                print("SPEC-DRIFT property=%s path of the real code is not a behaviour of Algebra.tla (%s): %s" % (prop, conf[1], json.dumps(p)[:400]), flush=True)
        if p["exc"] == "none" and p["calls"]:
            nontriv.add(digest([p["op"], p["c1"], p["c2"], p["opt"], p["simp"], [(c["k"], c["kind"], c["x"]) for c in p["calls"]]]))
        if kind == "violation":
            grp = detail.split(":")[0]
            mine = (prop == "C05" and grp in ("sound", "exact", "exception")) or (prop == "C06" and grp == "itf")
            if not mine:
                counts["other-property"] = counts.get("other-property", 0) + 1
                continue
            sig = {"op": p["op"], "kind": detail, "layer": "symbolic"}
            rep.violation(sig, {"init": inits[k], "path": p, "verdict": [kind, detail]})
        if len(rep.cov["samples"]) < 2 and p["exc"] == "none" and len(p["calls"]) >= 3:
            rep.sample({"path": p, "obl": [kind, detail], "conform": list(conf)})
    shutil.rmtree(rd, ignore_errors=True)
    return rep.finish({
        "evaluations": len(paths),
        "distinct_nontrivial": len(nontriv),
        "traces_validated_against_impl": len(paths),
        "initial_states_replayed": len(inits),
        "rule": "initial state = role of each of 2-3 variables in each contract, mention pattern of <= 1 assumption and <= 2 guarantee "
                "terms per contract, operation, kept/additional variables, simplify flag; every outcome path of the real algebra code "
                "over the scripted symbolic TermList is one trace; non-trivial = the operation returned after at least one primitive call",
        "verdict_counts": counts,
        "spec_drift": drift,
        "exhaustive": False,
    })


def main(tier, replay=None):
    return run(PROP, tier, replay)
