"""C04 -- variable elimination is implication-preserving for every tactic order.

R2: seeded systems (list, context, eliminated set) x configurations (refine/relax, tactic order,
simplify).  R3: every real call is one trace event; TLC (TraceElim/Elim/Poly) judges it from
exact certificates / witness points.  A TLC-confirmed witness is re-confirmed on the unsnapped
floats before it is reported.
"""
from __future__ import annotations

import itertools
import json

import family
import gen
import hints as H
import rows as R
from vcommon import Report, seed, run_dir, digest, die

PROP = "C04"
ORDERS = [[1], [2], [3], [4], [5], [1, 2, 3, 4, 5]]


def gen_cases(tier):
    sd = seed()
    n_sys = 260 if tier == "quick" else 6000
    cases = []
    for i in range(n_sys):
        rng = family.rng_for(sd, PROP, i)
        shape = i % 8
        nv = rng.choice([2, 3, 3, 4, 4, 5, 6])
        if i % 20 == 4:
            # a context coefficient of 2^-20 (just under one millionth): far out in the box it still moves the bound by ~1e-3 per unit of
            # the term's coefficient, so it is no rounding residue
            x, y, z = "x", "y", "z"
            k, m, sg = rng.choice([4, 8, 16]), rng.choice([1, 1, 2]), rng.choice([1, -1])
            S = [({x: sg * k, z: rng.choice([1, -1])}, rng.choice([0, 1]))]
            ctx = [({x: 1, y: -m * 2.0**-20}, 0), ({x: -1, y: m * 2.0**-20}, 0)] if rng.random() < 0.5 else [({x: sg, y: -m * 2.0**-20}, 0)]
            cfgs = [(op, order, simp) for op in ("refine", "relax") for order in ORDERS for simp in (False, True)]
            cases.append({"id": i + 1, "S": S, "ctx": ctx, "elim": [x], "cfgs": rng.sample(cfgs, 8) if tier == "quick" else cfgs})
            continue
        if i % 20 == 14:
            # tactic 2 with the eliminated variables in ANOTHER order in the context than in the term / the list to eliminate (a chain through a
            # second eliminated variable that the context mentions first; or two of them listed the other way round)
            sg = rng.choice([1, -1])
            k = rng.choice([2, 3])
            if rng.random() < 0.5:
                S = [({"x": 1, "e": sg}, rng.randint(0, 3))]
                ctx = [({"f": sg}, rng.randint(2, 4)), ({"e": sg, "f": -sg * k}, 0), ({"e": -sg}, rng.randint(0, 2)), ({"f": -sg}, 0)]
                elim = ["e", "f"]
            else:
                S = [({"x": 1, "e": sg, "f": sg * k}, rng.randint(0, 3))]
                ctx = [({"f": sg}, rng.randint(1, 3)), ({"e": sg}, rng.randint(4, 6)), ({"e": -sg}, 1), ({"f": -sg}, 1)]
                elim = ["e", "f"]
            cfgs = [(op, order, simp) for op in ("refine", "relax") for order in ([2], [1, 2, 3, 4, 5], [2, 1], [5, 2]) for simp in (False, True)]
            cases.append({"id": i + 1, "S": S, "ctx": ctx, "elim": elim, "cfgs": rng.sample(cfgs, 10) if tier == "quick" else cfgs})
            continue
        if i % 20 == 9:
            # an eliminated variable that occurs ONLY in the context: the only bound on y runs through it (and on through a kept variable),
            # so a tactic may carry it into the term -- the result must still mention no eliminated variable
            sg = rng.choice([1, -1])
            S = [({"x": 1, "y": -sg}, rng.randint(0, 6))] + ([({"x": rng.choice([1, -1])}, rng.randint(1, 5))] if rng.random() < 0.4 else [])
            ctx = [({"y": sg, "u": -sg}, 0), ({"u": sg, "w": -sg}, rng.choice([0, 1])), ({"w": sg}, rng.randint(5, 10))]
            if rng.random() < 0.5:
                rng.shuffle(ctx)
            cfgs = [(op, order, simp) for op in ("refine", "relax") for order in ORDERS + [[5, 1, 2, 3, 4]] for simp in (False, True)]
            cases.append({"id": i + 1, "S": S, "ctx": ctx, "elim": ["y", "u"], "cfgs": rng.sample(cfgs, 10) if tier == "quick" else cfgs})
            continue
        if i % 20 == 19:
            # two eliminated variables whose coefficients in the term have OPPOSITE (or equal) signs, against context rows over the two whose
            # signs are drawn independently of the term's: rows that bound x + y say nothing about x - y.  A row of the wrong shape listed
            # before a usable one, rows that pass a sign test on ONE of their coefficients only, usable rows in either order.
            s1, s2 = rng.choice([1, -1, 2, -2]), rng.choice([1, -1, 2, -2])
            S = [({"x": s1, "y": s2, "z": rng.choice([1, -1])}, rng.randint(0, 6))]
            ctx = []
            for _ in range(rng.randint(2, 3)):
                row = {"x": rng.choice([1, -1, 2, -2]), "y": rng.choice([1, -1, 2, -2])}
                if rng.random() < 0.3:
                    row["i"] = rng.choice([1, -1])
                ctx.append((row, rng.randint(0, 5)))
            if rng.random() < 0.5:
                # one row per variable with the signs the term needs in one direction, after the others
                d_ = rng.choice([1, -1])
                ctx += [({"x": d_ * (1 if s1 > 0 else -1)}, rng.randint(1, 5)), ({"y": d_ * (1 if s2 > 0 else -1), "i": -1}, rng.randint(0, 3))]
            cfgs = [(op, order, simp) for op in ("refine", "relax") for order in ([1], [3], [1, 2, 3, 4, 5], [3, 1], [1, 3]) for simp in (False, True)]
            cases.append({"id": i + 1, "S": S, "ctx": ctx, "elim": ["x", "y"], "cfgs": rng.sample(cfgs, 10) if tier == "quick" else cfgs})
            continue
        if shape >= 6:
            cases.append(tlp_case(rng, i + 1, tier) if i % 16 >= 14 else kaykobad_case(rng, i + 1, tier))
            continue
        vs = gen.VARS6[6 - nv :]
        ne = 1 if shape in (0, 1, 2) else rng.choice([1, 2, 2])
        elim = rng.sample(vs, min(ne, len(vs) - 1) or 1)
        keepv = [v for v in vs if v not in elim]
        dy = 0.15 if shape == 5 else 0.0
        S = [gen.rterm_raw(rng, vs, must=rng.choice(elim), dyadic=dy) for _ in range(rng.randint(1, 3))]
        if rng.random() < 0.4:
            S.append(gen.rterm_raw(rng, keepv or vs, dyadic=dy))
        if shape == 0:  # tactic-4 shape: one eliminated variable, context rows pair it with one other variable
            ctx = [gen.rterm_raw(rng, vs, nmax=2, must=elim[0]) for _ in range(rng.randint(1, 3))]
        elif shape == 1:  # tactic-2 shape: context bounds the eliminated variables only
            ctx = gen.bounded_list_raw(rng, elim)
            if rng.random() < 0.5:
                ctx.append(gen.rterm_raw(rng, vs))
        elif shape == 2:  # tactic-5 shape: bounded context, degenerate optima likely (integer vertices)
            ctx = gen.bounded_list_raw(rng, vs) + gen.rlist_raw(rng, vs, 0, 2)
            rng.shuffle(ctx)
        elif shape == 3:  # chains through a second eliminated variable
            ctx = [gen.rterm_raw(rng, elim + keepv[:1], nmax=2, must=e) for e in elim] + gen.rlist_raw(rng, vs, 0, 2)
        else:
            ctx = gen.rlist_raw(rng, vs, 0, 4, dyadic=dy)
        cfgs = []
        extra = rng.sample([1, 2, 3, 4, 5], rng.randint(2, 5))
        for order in ORDERS + [extra]:
            for op in ("refine", "relax"):
                cfgs.append((op, order, rng.random() < 0.35))
        if tier == "quick":
            cfgs = rng.sample(cfgs, 8)
        cases.append({"id": i + 1, "S": S, "ctx": ctx, "elim": elim, "cfgs": cfgs})
    if tier == "thorough":
        cases += exhaustive_cases(len(cases))
    return cases


def kaykobad_case(rng, cid, tier):
    """One term with 2-3 eliminated variables and one context row per eliminated variable whose signs
    match the term (as tactics 1 and 3 require) in one direction; off-diagonal entries range from
    dominated to dominating, with occasional wrong signs: the matrix conditions must do the rejecting."""
    ne = rng.choice([2, 3, 3])
    ys = ["y1", "y2", "y3"][:ne]
    keepv = ["x", "w"]
    a = {y: rng.choice([-3, -2, -1, 1, 2, 3]) for y in ys}
    term = (dict(a, **{rng.choice(keepv): rng.choice([-2, -1, 1, 2])}), rng.randint(-3, 8))
    direction = rng.choice([1, -1])          # 1: signs as refining needs them, -1: as relaxing needs them
    ctx = []
    heavy = rng.random() < 0.5 and ne == 3
    if heavy:
        # column-heavy: every other row leans on one column; each lean alone is dominated by the
        # term's coefficient there, together they are not (the accumulated condition must reject)
        jstar = rng.randrange(ne)
        sgn = {y: (1 if a[y] > 0 else -1) for y in ys}
        for y in ys:
            a[y] = sgn[y] * 2
        a[ys[jstar]] = sgn[ys[jstar]] * 3
        term = (dict(a, **{rng.choice(keepv): rng.choice([-2, -1, 1, 2])}), rng.randint(-3, 8))
        for i_, y in enumerate(ys):
            co = {y: sgn[y] * direction}
            if i_ != jstar:
                co[ys[jstar]] = sgn[ys[jstar]] * direction
            if rng.random() < 0.4:
                co[rng.choice(keepv)] = rng.choice([-1, 1])
            ctx.append((co, rng.randint(0, 3)))
    for i_, y in enumerate([] if heavy else ys):
        co = {}
        for j_, z in enumerate(ys):
            sg = (1 if a[z] > 0 else -1) * direction
            if i_ == j_:
                co[z] = sg * rng.choice([1, 2, 3])
            else:
                m = rng.choice([0, 0, 1, 1, 2, 3, -1])
                if m:
                    co[z] = sg * m
        if rng.random() < 0.6:
            co[rng.choice(keepv)] = rng.choice([-2, -1, 1, 2])
        ctx.append((co, rng.randint(-2, 6)))
    if rng.random() < 0.3:
        ctx.append(gen.rterm_raw(rng, ys + keepv))
    rng.shuffle(ctx)
    S = [term] + ([gen.rterm_raw(rng, keepv)] if rng.random() < 0.3 else [])
    cfgs = [(op, o, s_) for op in ("refine", "relax") for o in ([1], [3], [1, 2, 3, 4, 5], [3, 1]) for s_ in (False,)]
    if tier == "quick":
        cfgs = rng.sample(cfgs, 6)
    return {"id": cid, "S": S, "ctx": ctx, "elim": ys, "cfgs": cfgs}


def tlp_case(rng, cid, tier):
    """Tactic 5 with two eliminated variables in the term and a DEGENERATE optimum of its LP: several
    context rows are active at the optimum (all pass through one point), the row matrix is not symmetric,
    and only some pairs of active rows bound the term with non-negative multipliers."""
    ys = ["y1", "y2"]
    a = {y: rng.choice([1, 2, 3]) * rng.choice([1, 1, -1]) for y in ys}
    term = (dict(a, w=rng.choice([-1, 1, 2])), rng.randint(2, 10))
    px = {y: rng.choice([0, 0, 1, -1]) for y in ys}           # the common point of the active rows
    ctx = []
    for _ in range(rng.randint(3, 4)):
        co = {ys[0]: rng.choice([1, 2, 3, -1]), ys[1]: rng.choice([0, 1, 1, 2, -1])}
        co = {v: c for v, c in co.items() if c}
        if rng.random() < 0.4:
            co["u"] = rng.choice([-1, 1])
        ctx.append((co, sum(c * px.get(v, 0) for v, c in co.items())))
    ctx.append(({"u": 1}, 0))
    if rng.random() < 0.5:
        ctx.append(({"u": -1}, rng.randint(0, 3)))
    rng.shuffle(ctx)
    cfgs = [(op, o, False) for op in ("refine", "relax") for o in ([5], [5, 1, 2, 3, 4], [5, 2])]
    return {"id": cid, "S": [term], "ctx": ctx, "elim": ys, "cfgs": cfgs}


def exhaustive_cases(base):
    """Bounded-exhaustive family: 2 variables, 1 term, <= 2 context rows, coefficients {-1,0,1,2}."""
    out = []
    co = [-1, 0, 1, 2]
    terms = [({"x": a, "y": b}, c) for a in co for b in [-1, 1, 2] for c in (0, 1)]
    ctxrows = [({"x": a, "y": b}, c) for a in co for b in co if (a, b) != (0, 0) for c in (1,)]
    i = base
    for t in terms:
        for ctx in itertools.chain([[]], [[r] for r in ctxrows], ([r, s] for r, s in itertools.combinations(ctxrows, 2))):
            i += 1
            cfgs = [(op, o, False) for o in ORDERS for op in ("refine", "relax")]
            out.append({"id": i, "S": [t], "ctx": list(ctx), "elim": ["y"], "cfgs": cfgs})
    # thin the quadratic part deterministically to keep the thorough tier within minutes
    return [c for j, c in enumerate(out) if len(c["ctx"]) < 2 or j % 7 == 0]


def clean(raw):
    return [({v: a for v, a in co.items() if a != 0}, c) for co, c in raw]


def run_case(case):
    from pacti.iocontract import Var

    events = []
    S_raw, ctx_raw = clean(case["S"]), clean(case["ctx"])
    for op, order, simp in case["cfgs"]:
        tl, ctx = gen.mk_list(S_raw), gen.mk_list(ctx_raw)
        elim = [Var(v) for v in case["elim"]]
        Srows, Si = R.rows_of(tl)
        Crows, Ci = R.rows_of(ctx)
        ev = {"op": op, "order": order, "simplify": simp, "elim": case["elim"], "S": Srows, "ctx": Crows,
              "R": [], "exc": "none", "ok": True, "g": 0, "hints": [], "names": [], "_tactics": [], "_msg": ""}
        try:
            fn = tl.elim_vars_by_refining if op == "refine" else tl.elim_vars_by_relaxing
            res, st = fn(ctx, elim, simplify=simp, tactics_order=list(order))
            ev["_tactics"] = [int(s[0]) for s in st]
        except Exception as e:  # noqa: BLE001 - the class is what the spec judges
            res = None
            ev["exc"] = type(e).__name__
            ev["_msg"] = str(e)[:200]
        names = sorted(R.rows_vars(Srows) | R.rows_vars(Crows) | set(case["elim"]))
        if res is not None:
            Rrows, Ri = R.rows_of(res)
            ev["R"] = Rrows
            ev["ok"] = R.all_ok(Ri)
            names = sorted(set(names) | R.rows_vars(Rrows))
            if ev["ok"]:
                hyp = Crows + (Rrows if op == "refine" else Srows)
                hinfo = Ci + (Ri if op == "refine" else Si)
                tg = Srows if op == "refine" else Rrows
                tinfo = Si if op == "refine" else Ri
                hs = []
                for t, ti in zip(tg, tinfo):
                    h = H.hint_plain(hyp, names, t)
                    if h["kind"] == "cert" and not audit(h, hinfo, ti, t, names):
                        h = dict(H.NONE)
                    hs.append(h)
                ev["hints"] = hs
                ev["_hyp_exact"] = [i["exact"] for i in hinfo]
                ev["_tg_exact"] = [i["exact"] for i in tinfo]
                ev["_hyp_dev"] = [i["dev"] for i in hinfo]
                ev["_tg_dev"] = [i["dev"] for i in tinfo]
        ev["names"] = names
        ev["g"] = 2 if len(names) <= 4 else (1 if len(names) <= 6 else 0)
        if any(max([abs(x) for x in r["co"].values()] + [abs(r["c"]), r["k"]]) > 20000 for r in ev["S"] + ev["ctx"] + ev["R"]):
            ev["g"] = 0
        events.append(ev)
    return {"id": case["id"], "ev": events}


def audit(h, hyp_infos, t_info, t, names):
    """Transfer error of a certificate from snapped to unsnapped rows must stay below 5% of tol."""
    from fractions import Fraction as F

    L = h.get("_L")
    if L is None:
        return True
    err = t_info["dev"]
    for i, inf in enumerate(hyp_infos):
        if i < len(L) and L[i] != 0:
            err += L[i] * inf["dev"]
    tol = F(t["k"] + abs(t["c"]), 10000) / t["k"]
    return err <= tol / 20


def grid_witness(hyp, names, t, g):
    for vals in itertools.product(range(-g, g + 1), repeat=len(names)):
        q = dict(zip(names, vals))
        if all(sum(a * q.get(v, 0) for v, a in r["co"].items()) <= r["c"] for r in hyp):
            e = sum(a * q.get(v, 0) for v, a in t["co"].items()) - t["c"]
            if e > 0 and e * 10000 > (t["k"] + abs(t["c"])):
                return q
    return None


def reconfirm(ev, detail):
    """Harness-side exact confirmation of a TLC-confirmed violation on the unsnapped floats."""
    if not detail.startswith("row:"):
        return True
    i = int(detail[4:]) - 1
    h = ev["hints"][i]
    hyp = ev["ctx"] + (ev["R"] if ev["op"] == "refine" else ev["S"])
    t = (ev["S"] if ev["op"] == "refine" else ev["R"])[i]
    if h["kind"] == "witness2":
        from fractions import Fraction as F

        q = {v: F(x) * h["d"] + h["w"].get(v, 0) for v, x in h["q"].items()}
        return H.confirm_witness_exact(ev["_hyp_exact"], ev["_tg_exact"][i], {v: int(x) for v, x in q.items()}, h["d"], ev["_hyp_dev"], ev["_tg_dev"][i])
    if h["kind"] == "witness":
        q, d = h["q"], h["d"]
    else:
        q, d = grid_witness(hyp, ev["names"], t, ev["g"]), 1
        if q is None:
            return False
    return H.confirm_witness_exact(ev["_hyp_exact"], ev["_tg_exact"][i], q, d, ev["_hyp_dev"], ev["_tg_dev"][i])


def main(tier, replay=None, rep=None, prop=PROP, cases=None):
    collect = rep is not None
    rep = rep or Report(PROP, tier)
    rd = run_dir(PROP + ("-sub" if collect else ""))
    if replay:
        with open(replay) as f:
            cases = [json.load(f)["case"]["case"]]
    elif cases is None:
        cases = gen_cases(tier)
    traces = family.pmap(run_case, cases, chunksize=2)
    verdicts = family.judge_traces(rep, "TraceElim", "TraceElim.cfg", traces, rd, batch=250)
    by_id = {c["id"]: c for c in cases}
    counts, tactic_rows, nontrivial = {}, {}, set()
    n_ev = 0
    for t in traces:
        for l, ev in enumerate(t["ev"], 1):
            n_ev += 1
            kind, detail = verdicts[(t["id"], l, "elim")]
            counts[kind + ":" + (detail if kind != "violation" else detail.split(":")[0])] = counts.get(kind + ":" + (detail if kind != "violation" else detail.split(":")[0]), 0) + 1
            for tn in ev["_tactics"]:
                tactic_rows[str(tn)] = tactic_rows.get(str(tn), 0) + 1
            if any(tn > 0 for tn in ev["_tactics"]) and ev["exc"] == "none":
                nontrivial.add(digest([by_id[t["id"]]["S"], by_id[t["id"]]["ctx"], ev["elim"], ev["op"], ev["order"], ev["simplify"]]))
            if kind == "violation" and prop == "C14" and not detail.startswith("exception:"):
                counts["other-property"] = counts.get("other-property", 0) + 1
            elif kind == "violation":
                if not reconfirm(ev, detail):
                    die("C04: TLC confirmed a witness that exact arithmetic on the unsnapped floats rejects: %s" % json.dumps(family.clean_json(ev))[:600])
                used = sorted({tn for tn in ev["_tactics"] if tn > 0})
                sig = {"op": ev["op"], "kind": detail.split(":")[0], "tactics": ",".join(map(str, used)),
                       "exc": ev["exc"]}
                case = dict(by_id[t["id"]])
                case["cfgs"] = [(ev["op"], ev["order"], ev["simplify"])]
                rep.violation(sig, {"case": case, "event": family.clean_json(ev), "verdict": [kind, detail], "msg": ev["_msg"]})
            elif kind == "malformed":
                die("C04: malformed event %s" % detail)
            if l == 1:
                rep.sample({"S": [gen.raw_str(r) for r in by_id[t["id"]]["S"]], "ctx": [gen.raw_str(r) for r in by_id[t["id"]]["ctx"]],
                            "elim": ev["elim"], "op": ev["op"], "order": ev["order"], "result": [R.row_str(r) for r in ev["R"]],
                            "exc": ev["exc"], "verdict": [kind, detail]})
    import shutil

    n_disp = 0
    if not collect and not replay:
        import tacticdrv

        from vcommon import drift_tier

        n_disp, _ = drift_tier(PROP, "dispatcher", lambda: tacticdrv.conformance(rep, rd, PROP, cases[: 80 if tier == "quick" else 800]))
        import t4drv

        n_t4, _ = drift_tier(PROP, "tactic-4", lambda: t4drv.conformance(rep, rd, PROP, tier, [c for c in cases if "S" in c][: 120 if tier == "quick" else 1500], seed()))
        n_disp += n_t4
        import t2drv

        n_t2, _ = drift_tier(PROP, "tactic-2", lambda: t2drv.conformance(rep, rd, PROP, tier, seed()))
        n_disp += n_t2
        # the term arithmetic the tactics are built from (multiply, +, remove / isolate / substitute, sign queries), spec/TermAlgebra.tla
        n_ta, _ = drift_tier(PROP, "term-arithmetic", lambda: __import__("termdrv").conformance(rep, rd, PROP))
        n_disp += n_ta
        # tactic 3's change of variables (what it hands to tactic 1), spec/Tactic3.tla
        n_t3, _ = drift_tier(PROP, "tactic-3", lambda: __import__("t3drv").conformance(rep, rd, PROP, tier))
        n_disp += n_t3
        # the reduction step tactics 1 and 5 share once the rows are chosen (solve as equalities, substitute), spec/ContextReduction.tla
        n_cr, _ = drift_tier(PROP, "context-reduction", lambda: __import__("crdrv").conformance(rep, rd, PROP, tier))
        n_disp += n_cr
        # tactic 1's row selection and its soundness together with the reduction step, spec/Kaykobad.tla
        n_kk, _ = drift_tier(PROP, "tactic-1", lambda: __import__("kkdrv").conformance(rep, rd, PROP, tier))
        n_disp += n_kk
        # tactic 5's row selection around its one LP call, for every active set the solver may report, spec/Tlp.tla
        n_tlp, _ = drift_tier(PROP, "tactic-5", lambda: __import__("tlpdrv").conformance(rep, rd, PROP, tier))
        n_disp += n_tlp
    shutil.rmtree(rd, ignore_errors=True)
    if collect:
        return {"evaluations": n_ev, "nontrivial": nontrivial, "traces": len(traces), "verdict_counts": counts}
    return rep.finish({
        "evaluations": n_ev,
        "distinct_nontrivial": len(nontrivial),
        "traces_validated_against_impl": len(traces) + n_disp,
        "rule": "one trace per generated (list, context, eliminated set), one event per (refine|relax, tactics_order, simplify); "
                "non-trivial = the call returned and at least one tactic >= 1 produced a row; distinct by digest of the call",
        "verdict_counts": counts,
        "rows_by_tactic": tactic_rows,
        "hint_stats": dict(H.STATS),
        "exhaustive": False,
    })
