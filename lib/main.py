"""./check <ID> [--tier quick|thorough] [--replay path]  -- exit 0 held / 1 violation / 2 machinery failure."""
import argparse
import importlib
import os
import sys
import traceback

sys.path.insert(0, os.path.dirname(os.path.abspath(__file__)))
import vcommon  # noqa: E402


def main():
    ap = argparse.ArgumentParser()
    ap.add_argument("id")
    ap.add_argument("--tier", default=None)
    ap.add_argument("--replay", default=None)
    a = ap.parse_args()
    tier = a.tier or vcommon.tier()
    os.environ["VERIF_TIER"] = tier
    vcommon.bind_pacti()
    import logging

    logging.disable(logging.CRITICAL)
    name = a.id.lower()
    try:
        mod = importlib.import_module("props." + name)
    except ModuleNotFoundError:
        vcommon.die("no check named %s" % a.id)
    try:
        rc = mod.main(tier, a.replay)
    except SystemExit:
        raise
    except Exception:  # noqa: BLE001
        traceback.print_exc()
        vcommon.die("check %s crashed" % a.id)
    sys.exit(rc)


main()
