"""Bounded-exhaustive conformance of PolyhedralTermList.evaluate / contains_behavior with spec/Evaluate.tla (in the manner of
matrixdrv.py): TLC checks Laws on every (term list, partial assignment) of the small universe, refutes the wrong variant (the
constant moves by the value alone), and in generator mode prints each state with the residual list or the error and the answer of
contains_behavior; every state is replayed into the real functions.  Mismatches are SPEC-DRIFT lines."""
from __future__ import annotations

import json
import re

from tlcrun import require_clean, run_tlc, stats_of
from vcommon import die

NAMES = {1: "x", 2: "y", 3: "z"}


def conformance(rep, rd, prop, tier="quick"):
    for cfg, must in (("Evaluate_quick.cfg" if tier == "quick" else "Evaluate.cfg", None), ("Evaluate_wrong1.cfg", "Laws")):
        res = run_tlc("Evaluate", cfg, rd, timeout=3000, gc="parallel")
        st = stats_of(res)
        st["invariants_violated"] = res["invariant_violated"]
        if must:
            if must not in str(res["invariant_violated"]):
                die("Evaluate/%s: expected TLC to refute %s (wrong variant), got %r" % (cfg, must, res["invariant_violated"]))
            st["expected_violation"] = must
            rep.add_tlc(st)
            continue
        require_clean(res, "Evaluate/" + cfg)
        rep.add_tlc(st)
        if res["invariant_violated"]:
            print("SPEC-DRIFT property=%s design-level invariant %s violated in Evaluate.tla (%s)" % (prop, res["invariant_violated"], cfg), flush=True)
    res = run_tlc("Evaluate", "Evaluate_gen.cfg" if tier == "quick" else "Evaluate_gen_big.cfg", rd, workers=1, timeout=3000)
    require_clean(res, "Evaluate_gen")
    rep.add_tlc(stats_of(res))
    cases, seen = [], set()
    for m in re.finditer(r'<<"CASE", "(.*?)">>\s*$', res["out"], re.M):
        if m.group(1) not in seen:
            seen.add(m.group(1))
            cases.append(json.loads(m.group(1).encode().decode("unicode_escape")))
    if len(cases) < 60000:
        die("Evaluate.tla emitted only %d cases" % len(cases))

    from pacti.iocontract import Var
    from pacti.terms.polyhedra import PolyhedralTerm, PolyhedralTermList

    def term(t):
        return PolyhedralTerm({Var(NAMES[k]): c for k, c in zip(t["ks"], t["cf"])}, t["c"])

    def shape(t):
        return {"ks": [v.name for v in t.variables], "cf": [float(c) for c in t.variables.values()], "c": float(t.constant)}

    def want(t):
        return {"ks": [NAMES[k] for k in t["ks"]], "cf": [float(c) for c in t["cf"]], "c": float(t["c"])}

    drift = 0
    for cs in cases:
        tl = PolyhedralTermList([term(t) for t in cs["t"]])
        before = [shape(t) for t in tl.terms]
        vals = {Var(NAMES[k]): v for k, v in zip(cs["dom"], cs["vals"])}
        why = None
        try:
            try:
                got = {"exc": "none", "res": [shape(t) for t in tl.evaluate(dict(vals)).terms]}
            except ValueError:
                got = {"exc": "ValueError", "res": []}
            exp = {"exc": cs["ev"]["exc"], "res": [want(t) for t in cs["ev"]["res"]]}
            if got != exp:
                why = "evaluate gives %s, the specification gives %s" % (got, exp)
            else:
                try:
                    cb = "true" if tl.contains_behavior(dict(vals)) else "false"
                except ValueError:
                    cb = "ValueError"
                if cb != cs["cb"]:
                    why = "contains_behavior gives %s, the specification gives %s" % (cb, cs["cb"])
            if why is None and before != [shape(t) for t in tl.terms]:
                why = "the query changed the list"
        except Exception as e:  # noqa: BLE001
            why = "raised %s: %s" % (type(e).__name__, e)
        if why:
            drift += 1
            if drift <= 3:
                print("SPEC-DRIFT property=%s evaluation differs from Evaluate.tla for terms=%s values=%s: %s" %
                      (prop, json.dumps(cs["t"]), json.dumps(dict(zip(cs["dom"], cs["vals"]))), why), flush=True)
    rep.cov["evaluate_conformance"] = {"cases_enumerated_by_tlc": len(cases), "replays": len(cases), "spec_drift": drift}
    rep.cov["traces_validated_against_impl"] = rep.cov.get("traces_validated_against_impl", 0) + len(cases)
    return len(cases), drift
