"""Event builders for the LP-backed queries (spec/LP.tla, spec/TraceLP.tla): run the real call,
project, attach hints.  Common runner `run` for the checks C03, C07, C11, C12."""
from __future__ import annotations

import json
import math
import shutil
from fractions import Fraction as F

import clauses as C
import family
import gen
import hints as H
import rows as R
from vcommon import Report, digest, die, run_dir

NONE = dict(H.NONE)


def _names(*rowlists, extra=()):
    return H.names_for(*rowlists, extra=extra)


def _grid(names, rows=()):
    for r in rows:
        if max([abs(x) for x in r["co"].values()] + [abs(r["c"]), r["k"]]) > 20000:
            return 0
    return 2 if len(names) <= 4 else (1 if len(names) <= 6 else 0)


def _ans(fn):
    try:
        v = fn()
        return v, "none"
    except Exception as e:  # noqa: BLE001
        return None, type(e).__name__


def _strip(h):
    return H.strip(h) if h else dict(NONE)


# ------------------------------------------------------------------ C07
def ev_simplify(S_raw, ctx_raw, via="list", with_ctx=True):
    """via='list': PolyhedralTermList.simplify(context); via='contract': constructor simplification
    (guarantees S against assumptions ctx)."""
    from pacti.contracts import PolyhedralIoContract
    from pacti.iocontract import Var

    tl, ctx = gen.mk_list(S_raw), gen.mk_list(ctx_raw)
    S, Cx = C.prows(tl), C.prows(ctx)
    if via == "list":
        out, exc = _ans(lambda: tl.simplify(ctx if with_ctx else None))
    else:
        inv = sorted({str(v) for v in ctx.vars})                       # the interface is read off the terms themselves, not off their integer images
        outv = sorted({str(v) for v in tl.vars} - set(inv))
        out, exc = _ans(lambda: PolyhedralIoContract(ctx, tl, [Var(v) for v in inv], [Var(v) for v in outv]).g)
    ev = {"op": "simplify", "S": S, "ctx": Cx if (with_ctx or via != "list") else [], "R": [], "exc": exc, "ok": True, "eqok": False,
          "groups": ["simplify"], "via": via}
    ctxr = ev["ctx"]
    names = _names(S, ctxr)
    hints = {"equiv": [], "irred": [], "infeas": dict(NONE)}
    if out is not None:
        Rr = C.prows(out)
        ev["R"] = Rr
        ev["ok"] = all(r["_ok"] for r in Rr)
        ev["eqok"] = all(r.get("_eqok", False) for r in Rr + S)
        names = _names(S, ctxr, Rr)
        if ev["ok"]:
            hints["equiv"] = [H.hint_plain(ctxr + Rr, names, s) for s in S]
            for i, r in enumerate(Rr):
                hyp = ctxr + Rr[:i] + Rr[i + 1:]
                h = H.cert(hyp, names, r, box=False, margin=True)
                if h is None:
                    h = H.not_implied_witness(hyp, names, r)
                hints["irred"].append(h or dict(NONE))
    elif exc == "ValueError":
        h = H.infeas_cert(ctxr + S, names, box=False) or H.feasible_point(ctxr + S, names)
        hints["infeas"] = h or dict(NONE)
    ev["names"], ev["g"], ev["hints"] = names, _grid(names, S + ctxr + ev["R"]), hints
    return ev


# ------------------------------------------------------------------ C03
def fwd_hints(L, Rr, names):
    out = []
    inf = None
    for t in Rr:
        h = H.cert(L, names, t, exact_only=True, box=False) or H.witness(L, names, t)
        if h is None:
            if inf is None:
                inf = H.infeas_cert(L, names, box=False) or False      # an unsatisfiable left side implies rows over variables it never mentions
            h = inf or None
        out.append(h or dict(NONE))
    return out


def ev_refines(L_raw, R_raw, truth_tag=""):
    tl, tr = gen.mk_list(L_raw), gen.mk_list(R_raw)
    L, Rr = C.prows(tl), C.prows(tr)
    v, exc = _ans(lambda: tl.refines(tr))
    names = _names(L, Rr)
    return {"op": "refines", "L": L, "R": Rr, "ans": ("true" if v else "false") if exc == "none" else exc, "names": names, "g": 0,
            "hints": {"fwd": fwd_hints(L, Rr, names)}, "groups": ["refines"], "_tag": truth_tag, "ok": True}


def ev_membership(c_raw, comp_raw, which):
    """contains_environment / contains_implementation of a contract, reduced to the list containment it denotes."""
    c = gen.mk_contract(c_raw, simplify=False)
    comp = gen.mk_list(comp_raw)
    if which == "env":
        v, exc = _ans(lambda: c.contains_environment(comp))
        L, Rr = C.prows(comp), C.prows(c.a)
    else:
        v, exc = _ans(lambda: c.contains_implementation(comp))
        L, Rr = C.prows(comp) + C.prows(c.a), C.prows(c.g) + C.prows(c.a)
    names = _names(L, Rr)
    return {"op": "refines", "L": L, "R": Rr, "ans": ("true" if v else "false") if exc == "none" else exc, "names": names, "g": 0,
            "hints": {"fwd": fwd_hints(L, Rr, names)}, "groups": ["refines"], "_tag": which, "ok": True}


def ev_crefines(c1_raw, c2_raw, how="refines"):
    c1, c2 = gen.mk_contract(c1_raw, simplify=False), gen.mk_contract(c2_raw, simplify=False)
    v, exc = _ans(lambda: (c1.refines(c2) if how == "refines" else c1 <= c2))
    p1, p2 = C.pcontract(c1), C.pcontract(c2)
    shares = set(p1["inv"]) == set(p2["inv"]) and set(p1["outv"]) == set(p2["outv"])
    names = sorted(C.cvars(p1) | C.cvars(p2))
    hints = {"asm": [], "gua": []}
    if shares:
        hints["asm"] = fwd_hints(p2["a"], p1["a"], names)
        hints["gua"] = fwd_hints(p1["g"] + p2["a"], p2["g"] + p2["a"], names)
    return {"op": "crefines", "c1": p1, "c2": p2, "shares": shares, "ans": ("true" if v else "false") if exc == "none" else exc,
            "names": names, "g": 0, "hints": hints, "groups": ["refines"], "_tag": how, "ok": True}


# ------------------------------------------------------------------ C11
def _point(beh):
    vals = {v: F(x) for v, x in beh.items()}
    d = 1
    for x in vals.values():
        d = d * x.denominator // math.gcd(d, x.denominator)
    return {v: int(x * d) for v, x in vals.items()}, d


def ev_contains(L_raw, beh, tl=None):
    """tl: a list object that has ALREADY answered earlier queries (its rows are then read from a fresh construction, not from the object)"""
    from pacti.iocontract import Var

    L = C.prows(gen.mk_list(L_raw))
    if tl is None:
        tl = gen.mk_list(L_raw)
    v, exc = _ans(lambda: tl.contains_behavior({Var(k): float(x) for k, x in beh.items()}))
    q, d = _point(beh)
    return {"op": "contains", "L": L, "q": q, "d": d, "ans": ("true" if v else "false") if exc == "none" else exc,
            "names": _names(L), "g": 0, "hints": {}, "groups": ["member"], "ok": True}


def ev_empty(L_raw):
    tl = gen.mk_list(L_raw)
    L = C.prows(tl)
    v, exc = _ans(lambda: tl.is_empty())
    names = _names(L)
    h = H.infeas_cert(L, names, box=False) or H.feasible_point(L, names) or dict(NONE)
    return {"op": "empty", "L": L, "ans": ("true" if v else "false") if exc == "none" else exc, "names": names, "g": 0,
            "hints": {"empty": h}, "groups": ["empty"], "ok": True}


def ev_consistency(L_raw, R_raw, beh, objs=None):
    """objs: (left, right) list objects shared with the earlier events of the same case"""
    from pacti.iocontract import Var

    tl, tr = objs or (gen.mk_list(L_raw), gen.mk_list(R_raw))
    b = {Var(k): float(x) for k, x in beh.items()}
    r, e1 = _ans(lambda: tl.refines(tr))
    a, e2 = _ans(lambda: tl.contains_behavior(b))
    c, e3 = _ans(lambda: tr.contains_behavior(b))
    s = lambda v, e: ("true" if v else "false") if e == "none" else e  # noqa: E731
    return {"op": "consistency", "refines": s(r, e1), "inL": s(a, e2), "inR": s(c, e3), "L": C.prows(gen.mk_list(L_raw)), "R": C.prows(gen.mk_list(R_raw)),
            "names": [], "g": 0, "hints": {}, "groups": ["consistency"], "ok": True}


# ------------------------------------------------------------------ C12
def obj_str(obj):
    parts = []
    for v, a in obj.items():
        parts.append("%s %d %s" % ("-" if a < 0 else "+", abs(a), v))
    s = " ".join(parts).lstrip("+ ").strip()
    return s


def ev_optimize(c_raw, obj, maximize, via="contract"):
    """via='contract': PolyhedralIoContract.optimize(expr); 'bounds': get_variable_bounds (obj = {var: 1}); 'list': TermList.optimize."""
    from pacti.iocontract import Var

    c = gen.mk_contract(c_raw, simplify=False)
    rows = C.prows(c.a) + C.prows(c.g)      # the rows as stored, not through the library's own union
    if via == "contract":
        v, exc = _ans(lambda: c.optimize(obj_str(obj), maximize))
    elif via == "bounds":
        var = list(obj)[0]
        v, exc = _ans(lambda: c.get_variable_bounds(var)[1 if maximize else 0])
    else:
        v, exc = _ans(lambda: (c.a | c.g).optimize({Var(k): a for k, a in obj.items()}, maximize))
    names = _names(rows, extra=list(obj))
    ev = {"op": "optimize", "rows": rows, "obj": {k: int(a) for k, a in obj.items()}, "max": bool(maximize), "rn": 0, "rd": 1, "ok": True,
          "names": names, "g": 0, "groups": ["optimize"], "via": via}
    if exc != "none":
        ev["ans"] = exc
    elif v is None:
        ev["ans"] = "none"
    else:
        ev["ans"] = "value"
        x = F(float(v))
        s = x.limit_denominator(10000)
        ev["ok"] = abs(s - x) <= F(1, 10**7) * max(1, abs(x)) and abs(s.numerator) < 10**6
        ev["rn"], ev["rd"] = s.numerator, s.denominator
    eff = obj if maximize else {k: -a for k, a in obj.items()}
    h = H.opt_hint(rows, {k: int(a) for k, a in eff.items()}, names)
    # magnitude pre-check of Close6
    if h["kind"] == "optimal" and ev["ans"] == "value":
        D = abs(ev["rn"] * h["vd"] - h["vn"] * ev["rd"])
        if max(D * 10**6, ev["rd"] * max(abs(h["vn"]), h["vd"]), abs(ev["rn"] * h["vd"]), abs(h["vn"] * ev["rd"])) > R.INT_MAX:
            ev["ok"] = False
    ev["hints"] = {"opt": h}
    return ev


# ------------------------------------------------------------------ runner
def run(prop, tier, cases, run_case, rule, owner, replay=None, nontrivial=None, batch=300, sig_of=None, rep=None, extra=None):
    collect = rep is not None
    rep = rep or Report(prop, tier)
    rd = run_dir(prop + ("-sub" if collect else ""))
    if replay:
        with open(replay) as f:
            cases = [json.load(f)["case"]["case"]]
    traces = family.pmap(run_case, cases, chunksize=2)
    verdicts = family.judge_traces(rep, "TraceLP", "TraceLP.cfg", traces, rd, batch=batch)
    by_id = {c["id"]: c for c in cases}
    counts, nontriv, n_ev = {}, set(), 0
    for t in traces:
        for l, ev in enumerate(t["ev"], 1):
            n_ev += 1
            grp = ev["groups"][0]
            kind, detail = verdicts[(t["id"], l, grp)]
            key = "%s/%s:%s" % (ev["op"], kind, detail.split(":")[0])
            counts[key] = counts.get(key, 0) + 1
            if kind == "malformed":
                die("%s: malformed event (%s) %s" % (prop, detail, json.dumps(family.clean_json(ev))[:500]))
            if (nontrivial(ev, kind, detail) if nontrivial else kind == "ok"):
                nontriv.add(digest([family.clean_json({k: v for k, v in ev.items() if k not in ("hints",)}), l]))
            if kind == "violation" and detail in ("exception:ValueError", "exception:IncompatibleArgsError") and prop == "C14":
                counts["documented-refusal"] = counts.get("documented-refusal", 0) + 1
                continue
            if kind == "violation":
                # C14 states the error discipline: undocumented exception classes, and a documented error that is OWED and not raised
                # (a constrained variable left unassigned must give ValueError, whatever else is wrong with the behaviour)
                c14_owned = detail.startswith("exception:") or detail.startswith("unassigned-variable:")
                who = "C14" if (c14_owned and prop == "C14") or detail.startswith("exception:") else owner(ev)
                if who != prop:
                    counts["other-property:" + who] = counts.get("other-property:" + who, 0) + 1
                    continue
                sig = {"op": ev["op"], "kind": detail.split(":")[0], "via": ev.get("via", ev.get("_tag", ""))}
                if sig_of:
                    sig.update(sig_of(ev, detail))
                case = dict(by_id[t["id"]])
                case["only_event"] = l
                rep.violation(sig, {"case": case, "event": family.clean_json(ev), "verdict": [kind, detail]})
            if l == 1:
                rep.sample({"event": family.clean_json({k: v for k, v in ev.items() if k != "hints"}), "verdict": [kind, detail]})
    if extra and not replay and not collect:
        try:
            extra(rep, rd)
        except Exception as e:  # noqa: BLE001 - the conformance tier follows the code's internals; when it cannot, that is drift, not a verdict
            print("SPEC-DRIFT property=%s the algorithm-level conformance run could not follow the code (%s: %s)" % (prop, type(e).__name__, str(e)[:200]), flush=True)
    shutil.rmtree(rd, ignore_errors=True)
    if collect:
        return {"evaluations": n_ev, "nontrivial": nontriv, "traces": len(traces), "verdict_counts": counts}
    return rep.finish({
        "evaluations": n_ev,
        "distinct_nontrivial": len(nontriv),
        "traces_validated_against_impl": len(traces) + rep.cov.get("algorithm_conformance", {}).get("recorded_runs", 0) + rep.cov.get("traces_validated_against_impl", 0),   # + states replayed by the generator tiers
        "rule": rule,
        "verdict_counts": counts,
        "exhaustive": False,
    })
