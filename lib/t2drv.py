"""Design-level check and conformance of tactic 2 (spec/Tactic2.tla), in the manner of t4drv.py: Tactic2Check.tla is
evaluated by TLC on every (term, context, direction) of a small universe with the TRUE answer of the LP; every recorded call
of the real PolyhedralTermList._tactic_2 is re-run by TraceTactic2.tla with the recorded answer of its one linprog call."""
from __future__ import annotations

import json
import os
from fractions import Fraction as F
from math import gcd

import family
from t4drv import NAMES, Skip, _triple
from tlcrun import parse_verdicts, require_clean, run_tlc, stats_of
from vcommon import die


def _frac(x, limit=300):
    f = F(float(x)).limit_denominator(10**4)
    if abs(f - F(float(x))) > F(1, 10**9) * max(1, abs(f)) or abs(f.numerator) > limit * 100 or f.denominator > limit:
        raise Skip()
    return f


class Recorder:
    def __init__(self):
        self.calls = []
        self.stack = []

    def install(self):
        import pacti.terms.polyhedra.polyhedra as pp

        self.pp = pp
        self.T = pp.PolyhedralTermList
        self.orig = self.T.__dict__["_tactic_2"]
        self.orig_lp = pp.linprog
        fn = self.orig.__func__
        rec = self

        def lp(c, A_ub=None, b_ub=None, bounds=None, **kw):
            res = rec.orig_lp(c=c, A_ub=A_ub, b_ub=b_ub, bounds=bounds, **kw)
            if rec.stack:
                import numpy as np

                rec.stack[-1]["lps"].append({"c": [float(x) for x in np.array(c, dtype=float).reshape(-1)], "n": int(np.array(A_ub).shape[0]),
                                             "st": int(res["status"]), "fun": float(res["fun"]) if res["status"] == 0 else 0.0})
            return res

        def wrapped(term, context, vars_to_elim, refine):
            entry = {"term": term.copy(), "ctx": [t.copy() for t in context.terms], "elim": [str(v) for v in vars_to_elim], "refine": bool(refine), "lps": []}
            rec.calls.append(entry)
            rec.stack.append(entry)
            try:
                out = fn(term, context, vars_to_elim, refine)
            except ValueError:
                entry["kind"], entry["out"] = "error", None
                raise
            except Exception as e:  # noqa: BLE001
                entry["kind"], entry["out"] = "exception:" + type(e).__name__, None
                raise
            finally:
                rec.stack.pop()
            entry["kind"], entry["out"] = ("none", None) if out[0] is None else ("row", out[0].copy())
            return out

        pp.linprog = lp
        self.T._tactic_2 = staticmethod(wrapped)
        self.orig_entry = self.T.TACTICS[2]
        self.T.TACTICS[2] = wrapped

    def remove(self):
        self.T._tactic_2 = self.orig
        self.T.TACTICS[2] = self.orig_entry
        self.pp.linprog = self.orig_lp

    def events(self):
        from pacti.utils.lists import list_diff

        evs = []
        for e in self.calls:
            if "kind" not in e or len(e["lps"]) > 1 or len(e["ctx"]) > 6:
                continue
            names = sorted({str(v) for t in [e["term"]] + e["ctx"] + ([e["out"]] if e["out"] is not None else []) for v in t.variables} | set(e["elim"]))
            if len(names) > len(NAMES):
                continue
            ren = dict(zip(names, NAMES))
            zero = {"co": {n: 0 for n in NAMES}, "c": 0, "den": 1}
            try:
                ev = {"term": _triple(e["term"], ren), "ctx": [_triple(t, ren) for t in e["ctx"]], "elim": [ren[v] for v in e["elim"]], "refine": e["refine"],
                      "kind": e["kind"], "row": _triple(e["out"], ren) if e["out"] is not None else zero,
                      "lp": {"st": 9, "num": 0, "den": 1}, "nrows": 0, "obj": {n: 0 for n in NAMES}, "objden": 1}
                if e["lps"]:
                    lp = e["lps"][0]
                    f = _frac(lp["fun"])
                    ev["lp"] = {"st": lp["st"], "num": f.numerator, "den": f.denominator}
                    ev["nrows"] = lp["n"]
                    # the columns of the LP are the variables of the rows handed to it, in first-appearance order
                    cols = []
                    for t in e["ctx"]:
                        if not list_diff([str(v) for v in t.variables], e["elim"]) and t != e["term"]:
                            for v in t.variables:
                                if str(v) not in cols:
                                    cols.append(str(v))
                    if len(cols) != len(lp["c"]):
                        raise Skip()
                    fr = [_frac(x) for x in lp["c"]]
                    den = 1
                    for x in fr:
                        den = den * x.denominator // gcd(den, x.denominator)
                    ev["objden"] = den
                    for v, x in zip(cols, fr):
                        ev["obj"][ren[v]] = int(x * den)
                evs.append(ev)
            except Skip:
                continue
        return evs


def small_case(rng):
    """a term over eliminated and kept variables; context rows over eliminated variables only (bounds, sums), kept-variable rows, the term itself"""
    vs = ["a", "b", "c", "d"][: rng.randint(2, 4)]
    elim = rng.sample(vs, rng.randint(1, len(vs) - 1))
    keep = [v for v in vs if v not in elim]
    term = ({**{v: rng.choice([-2, -1, 1, 2, 3]) for v in rng.sample(elim, rng.randint(1, len(elim)))}, **{v: rng.choice([-1, 1, 2]) for v in rng.sample(keep, rng.randint(0, len(keep)))}},
            rng.randint(-2, 4))
    ctx = []
    for _ in range(rng.randint(0, 5)):
        r = rng.random()
        if r < 0.55:
            ctx.append(({rng.choice(elim): rng.choice([-2, -1, 1, 2, 4])}, rng.randint(-2, 5)))
        elif r < 0.75 and len(elim) > 1:
            a, b = rng.sample(elim, 2)
            ctx.append(({a: rng.choice([-1, 1, 2]), b: rng.choice([-1, 1])}, rng.randint(0, 5)))
        elif r < 0.9:
            ctx.append(({rng.choice(vs): rng.choice([-1, 1]), rng.choice(keep): rng.choice([1, 2])}, rng.randint(0, 4)))
        else:
            ctx.append(term)
    return {"S": [term], "ctx": ctx, "elim": elim}


def run_case(case):
    import gen
    from pacti.iocontract import Var

    rec = Recorder()
    rec.install()
    try:
        for refine in (True, False):
            tl, ctx = gen.mk_list(case["S"]), gen.mk_list(case["ctx"])
            for t in tl.terms:
                try:
                    rec.T.TACTICS[2](t, ctx, [Var(v) for v in case["elim"]], refine)
                except Exception:  # noqa: BLE001 - only the recorded calls matter here
                    pass
    finally:
        rec.remove()
    return {"id": case["id"], "ev": rec.events()}


def design_level(rep, rd, prop, tier):
    out = {}
    runs = [("Tactic2Check_quick.cfg" if tier == "quick" else "Tactic2Check.cfg", None)]
    if tier != "quick":
        runs.append(("Tactic2Check_deep.cfg", None))
    runs += [("Tactic2Check_wrong1.cfg", "Exact"), ("Tactic2Check_vacuity1.cfg", "NeverRefines"), ("Tactic2Check_vacuity2.cfg", "NeverRelaxes")]
    for cfg, must_violate in runs:
        res = run_tlc("Tactic2Check", cfg, rd, timeout=3000, gc="parallel")
        require_clean(res, "Tactic2Check/" + cfg)
        st = stats_of(res)
        st["invariants_violated"] = res["invariant_violated"]
        rep.add_tlc(st)
        out[cfg] = {"distinct_states": st.get("distinct"), "violated": res["invariant_violated"]}
        if must_violate is None and res["invariant_violated"]:
            print("SPEC-DRIFT property=%s design-level invariant %s violated in Tactic2.tla (%s)" % (prop, res["invariant_violated"], cfg), flush=True)
        if must_violate is not None and must_violate not in str(res["invariant_violated"]):
            die("Tactic2Check/%s: expected TLC to refute %s (wrong variant / vacuity guard), got %r" % (cfg, must_violate, res["invariant_violated"]))
    return out


def conformance(rep, rd, prop, tier, sd):
    design = design_level(rep, rd, prop, tier)
    cases = []
    for i in range(500 if tier == "quick" else 8000):
        c = small_case(family.rng_for(sd, "T2", i))
        c["id"] = i + 1
        cases.append(c)
    traces = [t for t in family.pmap(run_case, cases, chunksize=8) if t["ev"]]
    path = os.path.join(rd, "tactic2.ndjson")
    with open(path, "w") as f:
        for t in traces:
            f.write(json.dumps(t) + "\n")
    res = run_tlc("TraceTactic2", "TraceTactic2.cfg", rd, env={"TRACE_FILE": path}, timeout=1800)
    if res["timed_out"] or res["error"] or res["rc"] != 0:
        die("TraceTactic2 failed rc=%s\n%s" % (res["rc"], "\n".join(res["out"].splitlines()[-25:])))
    rep.add_tlc(stats_of(res))
    v = parse_verdicts(res["out"])
    n_calls, drift, kinds = 0, 0, {}
    for t in traces:
        got = {int(f[0]): f for f in v.get(t["id"], [])}
        for l, ev in enumerate(t["ev"], 1):
            n_calls += 1
            f = got.get(l)
            if f is None:
                die("TraceTactic2: no verdict for trace %s step %d" % (t["id"], l))
            key = "%s:%s" % (f[2], f[3].split(":")[0])
            kinds[key] = kinds.get(key, 0) + 1
            if f[2] != "ok":
                drift += 1
                if drift <= 3:
                    print("SPEC-DRIFT property=%s a recorded call of _tactic_2 does not end as Tactic2.tla says (%s): %s" % (prop, f[3], json.dumps(ev)[:500]), flush=True)
    os.remove(path)
    rep.cov["tactic2"] = {"design_level": design, "recorded_calls": n_calls, "spec_drift": drift, "verdicts": kinds}
    return n_calls, drift
