"""Drive the REAL pacti.iocontract.IoContract over a scripted symbolic TermList.

A symbolic term is an uninterpreted predicate [tag, vars].  Every primitive call
(elim_vars_by_refining / elim_vars_by_relaxing / simplify / refines) is answered by a chooser that
enumerates, depth first, every outcome shape the abstract model (spec/Algebra.tla) allows, and is
logged with its operand, context, eliminated set and chosen outcome.  One complete run of
compose_tactics / quotient_tactics / merge under one choice sequence is one *path*.
"""
from __future__ import annotations

import itertools

from pacti.iocontract import IoContract, Term, TermList, Var


class STerm(Term):
    def __init__(self, tag, vs):
        self.tag = int(tag)
        self._vars = tuple(sorted(str(v) for v in vs))

    @property
    def vars(self):  # noqa: A003
        return [Var(v) for v in self._vars]

    def contains_var(self, v):
        return str(v) in self._vars

    def __eq__(self, o):
        return isinstance(o, STerm) and self.tag == o.tag and self._vars == o._vars

    def __hash__(self):
        return hash((self.tag, self._vars))

    def __str__(self):
        return "t%d%s" % (self.tag, list(self._vars))

    __repr__ = __str__

    def copy(self):
        return STerm(self.tag, self._vars)

    def rename_variable(self, s, t):
        return STerm(self.tag, [str(t) if v == str(s) else v for v in self._vars])

    def js(self):
        return {"tag": self.tag, "vars": list(self._vars)}


class Chooser:
    """Depth-first enumeration of choice sequences by re-execution."""

    def __init__(self):
        self.stack = []  # list of [index, n_options]
        self.pos = 0

    def start_run(self):
        self.pos = 0

    def pick(self, n):
        if self.pos < len(self.stack):
            idx, m = self.stack[self.pos]
            assert m == n, "non-deterministic choice structure"
        else:
            idx = 0
            self.stack.append([0, n])
        self.pos += 1
        return idx

    def advance(self):
        """Move to the next choice sequence; False when exhausted."""
        self.stack = self.stack[: self.pos]
        while self.stack and self.stack[-1][0] + 1 >= self.stack[-1][1]:
            self.stack.pop()
        if not self.stack:
            return False
        self.stack[-1][0] += 1
        return True


class Ctx:
    chooser = None
    log = None
    nt = 10


def _tags(tl):
    return sorted(t.tag for t in tl.terms)


def _vars_of(tl):
    s = set()
    for t in tl.terms:
        s |= set(t._vars)
    return s


def _outcomes(cand, forb, t0):
    clean = [[], [STerm(t0, sorted(cand - forb))]]
    left = [[]] if not (cand & forb) else [[], [STerm(t0 + 1, sorted(cand))]]
    return [c + d for c in clean for d in left]


class STL(TermList):
    def __hash__(self):
        return hash(tuple(self.terms))

    def contains_behavior(self, b):
        return True

    def is_empty(self):
        # a primitive like the others: either answer is possible for an uninterpreted list.  The algebra layer of the tree under
        # test does not ask (no event is logged there); code that does gets both answers, and the obligations are judged without
        # granting anything for an "empty" answer
        i = Ctx.chooser.pick(2)
        Ctx.log.append({"k": "is_empty", "s": _tags(self), "ctx": [], "elim": [], "kind": "empty" if i == 0 else "nonempty", "x": []})
        return i == 0

    def _elim(self, kind, context, vars_to_elim):
        forb = {str(v) for v in vars_to_elim}
        cand = _vars_of(self) | _vars_of(context)
        opts = ["VE"] + _outcomes(cand, forb, Ctx.nt)
        i = Ctx.chooser.pick(len(opts))
        ev = {"k": kind, "s": _tags(self), "ctx": _tags(context), "elim": sorted(forb)}
        if opts[i] == "VE":
            ev.update(kind="ve", x=[])
            Ctx.log.append(ev)
            raise ValueError("scripted failure")
        ev.update(kind="ok", x=[t.js() for t in opts[i]])
        Ctx.log.append(ev)
        Ctx.nt += 2
        return STL([t.copy() for t in opts[i]]), []

    def elim_vars_by_refining(self, context, vars_to_elim, simplify=True, tactics_order=None):
        return self._elim("refine", context, vars_to_elim)

    def elim_vars_by_relaxing(self, context, vars_to_elim, simplify=True, tactics_order=None):
        return self._elim("relax", context, vars_to_elim)

    def simplify(self, context=None):
        subsets = []
        for r in range(len(self.terms) + 1):
            subsets += [list(c) for c in itertools.combinations(self.terms, r)]
        opts = ["VE"] + subsets
        i = Ctx.chooser.pick(len(opts))
        ev = {"k": "simp", "s": _tags(self), "ctx": _tags(context) if context is not None else [], "elim": []}
        if opts[i] == "VE":
            ev.update(kind="ve", x=[])
            Ctx.log.append(ev)
            raise ValueError("scripted failure")
        ev.update(kind="ok", x=[t.js() for t in opts[i]])
        Ctx.log.append(ev)
        return STL([t.copy() for t in opts[i]])

    def refines(self, other):
        i = Ctx.chooser.pick(2)
        Ctx.log.append({"k": "refines", "s": _tags(other), "ctx": [], "elim": [], "kind": "true" if i == 0 else "false", "x": [t.js() for t in self.terms]})
        return i == 0


def mk(d):
    """d = {'inv': [...], 'outv': [...], 'a': [{tag, vars}], 'g': [...]} -> IoContract over STL (no simplification)."""
    return IoContract(
        STL([STerm(t["tag"], t["vars"]) for t in d["a"]]),
        STL([STerm(t["tag"], t["vars"]) for t in d["g"]]),
        [Var(v) for v in d["inv"]],
        [Var(v) for v in d["outv"]],
        simplify=False,
    )


def cjs(c):
    return {"inv": sorted(str(v) for v in c.inputvars), "outv": sorted(str(v) for v in c.outputvars),
            "a": [t.js() for t in c.a.terms], "g": [t.js() for t in c.g.terms]}


NOC = {"inv": [], "outv": [], "a": [], "g": []}


def all_paths(init, max_paths=20000):
    """init = {'op', 'c1', 'c2', 'opt', 'simp'} -> list of path records (one per choice sequence)."""
    ch = Chooser()
    paths = []
    while True:
        ch.start_run()
        Ctx.chooser, Ctx.log, Ctx.nt = ch, [], 10
        c1, c2 = mk(init["c1"]), mk(init["c2"])
        opt = [Var(v) for v in init["opt"]]
        rec = {"op": init["op"], "c1": init["c1"], "c2": init["c2"], "opt": list(init["opt"]), "simp": bool(init["simp"])}
        try:
            if init["op"] == "compose":
                r, _ = c1.compose_tactics(c2, opt, init["simp"], [])
            elif init["op"] == "quotient":
                r, _ = c1.quotient_tactics(c2, opt, init["simp"], [])
            else:
                r = c1.merge(c2)
            rec.update(exc="none", res=cjs(r))
        except Exception as e:  # noqa: BLE001
            rec.update(exc=type(e).__name__, res=dict(NOC))
        rec["calls"] = Ctx.log
        rec["c1_after"], rec["c2_after"] = _cjs_raw(c1), _cjs_raw(c2)
        paths.append(rec)
        if len(paths) >= max_paths or not ch.advance():
            break
    return paths


def itf_paths(init, max_paths=200):
    """Operations without elimination: constructor validation, refinement across interfaces, copy, rename.
    Interface lists are kept as given (duplicates and overlaps are the point)."""
    ch = Chooser()
    paths = []
    while True:
        ch.start_run()
        Ctx.chooser, Ctx.log, Ctx.nt = ch, [], 10
        rec = {"op": init["op"], "c1": init["c1"], "c2": init["c2"], "opt": list(init["opt"]), "simp": True}
        k1 = k2 = None
        try:
            if init["op"] == "construct":
                d = init["c1"]
                r = IoContract(STL([STerm(t["tag"], t["vars"]) for t in d["a"]]), STL([STerm(t["tag"], t["vars"]) for t in d["g"]]),
                               [Var(v) for v in d["inv"]], [Var(v) for v in d["outv"]])
            elif init["op"] == "refines":
                k1, k2 = mk(init["c1"]), mk(init["c2"])
                k1.refines(k2)
                r = None
            elif init["op"] == "copy":
                k1 = mk(init["c1"])
                r = k1.copy()
            else:
                k1 = mk(init["c1"])
                r = k1.rename_variable(Var(init["opt"][0]), Var(init["opt"][1]))
            rec.update(exc="none", res=_cjs_raw(r) if r is not None else dict(NOC))
        except Exception as e:  # noqa: BLE001
            rec.update(exc=type(e).__name__, res=dict(NOC))
        rec["calls"] = Ctx.log
        rec["c1_after"] = _cjs_raw(k1) if k1 is not None else rec["c1"]
        rec["c2_after"] = _cjs_raw(k2) if k2 is not None else rec["c2"]
        paths.append(rec)
        if len(paths) >= max_paths or not ch.advance():
            break
    return paths


def _cjs_raw(c):
    return {"inv": [str(v) for v in c.inputvars], "outv": [str(v) for v in c.outputvars],
            "a": [t.js() for t in c.a.terms], "g": [t.js() for t in c.g.terms]}
