"""Common runner for the properties judged by spec/TraceOps.tla (C01, C02, C06n, C08, C15, C16)."""
from __future__ import annotations

import json
import shutil

import family
import hints as H
import ops
from vcommon import Report, digest, die, run_dir, seed

# which property each clause group of each operation decides
GROUP_PROP = {
    ("compose", "sound"): "C01", ("quotient", "sound"): "C02", ("merge", "exact"): "C08",
    ("compose", "keeps"): "C15", ("merge", "keeps"): "C15", ("compose", "exact"): "C15",
    ("rename", "faithful"): "C16", ("renames", "faithful"): "C16",
    # C16 states the interface of a renaming too ("the interface lists are updated accordingly", clashes rejected): both own it
    ("renames", "itf"): ("C06", "C16"), ("rename", "itf"): ("C06", "C16"),
    ("compose", "itf"): "C06", ("quotient", "itf"): "C06", ("merge", "itf"): "C06",
}


def run(prop, tier, cases, run_case, rule, replay=None, sig_extra=None, nontrivial=None, batch=200, rep=None, design=None, extra=None):
    """cases: list of dicts with 'id'; run_case(case) -> {'id', 'ev': [events]} (executed in workers)."""
    collect = rep is not None
    rep = rep or Report(prop, tier)
    rd = run_dir(prop + ("-sub" if collect else ""))
    if replay:
        with open(replay) as f:
            cases = [json.load(f)["case"]["case"]]
    if design and not replay and not collect:
        # R1: the algebra part of the property, decided for all contents on spec/Algebra.tla
        from tlcrun import run_tlc, stats_of, require_clean

        cfg = design[0] if tier == "quick" else design[1]
        res = run_tlc("Algebra", cfg, rd, timeout=3000, gc="parallel", heap="12g")
        require_clean(res, "Algebra/" + cfg)
        st = stats_of(res)
        st["invariants_violated"] = res["invariant_violated"]
        rep.add_tlc(st)
        if res["invariant_violated"]:
            print("SPEC-DRIFT property=%s design-level invariant %s violated in Algebra.tla (%s)" % (prop, res["invariant_violated"], cfg), flush=True)
    traces = family.pmap(run_case, cases, chunksize=2)
    verdicts = family.judge_traces(rep, "TraceOps", "TraceOps.cfg", traces, rd, batch=batch)
    by_id = {c["id"]: c for c in cases}
    counts, nontriv, tactic_use, n_ev = {}, set(), {}, 0
    for t in traces:
        for l, ev in enumerate(t["ev"], 1):
            n_ev += 1
            for tn in ops.tactics_used(ev):
                tactic_use[str(tn)] = tactic_use.get(str(tn), 0) + 1
            is_nt = nontrivial(ev) if nontrivial else ev["exc"] == "none"
            if is_nt:
                nontriv.add(digest([by_id[t["id"]].get("raw"), ev["op"], ev.get("keep"), ev.get("addl"), ev.get("s"), ev.get("t"),
                                    ev.get("simplify"), ev.get("order"), l]))
            for grp in ev["groups"]:
                kind, detail = verdicts[(t["id"], l, grp)]
                key = "%s/%s:%s" % (ev["op"], kind, detail.split(":")[0] if kind in ("violation", "unjudged") else detail)
                counts[key] = counts.get(key, 0) + 1
                owner = GROUP_PROP.get((ev["op"], grp))
                if kind == "malformed":
                    die("%s: malformed event (%s) %s" % (prop, detail, json.dumps(family.clean_json(ev))[:500]))
                if kind != "violation":
                    continue
                if detail.startswith("exception:"):
                    owner = "C14"
                c14_too = detail.startswith("exception:") or detail == "itf:operand-changed-by-failed-call"
                owners = owner if isinstance(owner, tuple) else (owner,)
                if prop not in owners and not (prop == "C14" and c14_too):
                    counts["other-property:" + str(owner)] = counts.get("other-property:" + str(owner), 0) + 1
                    continue
                if not ops.reconfirm_event(ev, grp, detail):
                    die("%s: TLC confirmed a witness that exact arithmetic on the unsnapped floats rejects: %s %s" % (prop, detail, json.dumps(family.clean_json(ev))[:800]))
                sig = {"op": ev["op"], "group": grp, "kind": detail.split(":")[0] if not detail.startswith("itf:") else detail,
                       "tactics": ",".join(map(str, ops.tactics_used(ev))), "exc": ev["exc"]}
                if sig_extra:
                    sig.update(sig_extra(by_id[t["id"]], ev))
                case = dict(by_id[t["id"]])
                case["only_event"] = l
                rep.violation(sig, {"case": case, "event": family.clean_json(ev), "verdict": [grp, kind, detail], "msg": ev.get("_msg", "")})
            if l == 1:
                rep.sample({"op": ev["op"], "c1": show(ev["c1"]), "c2": show(ev["c2"]), "keep": ev.get("keep"), "addl": ev.get("addl"),
                            "rename": [ev.get("s"), ev.get("t")], "result": show(ev["res"]), "exc": ev["exc"],
                            "verdicts": {g: verdicts[(t["id"], l, g)] for g in ev["groups"]}})
    if extra and not replay and not collect:
        from vcommon import drift_tier

        drift_tier(prop, "algorithm-level", lambda: extra(rep, rd))      # bounded-exhaustive conformance tiers (SPEC-DRIFT lines only)
    shutil.rmtree(rd, ignore_errors=True)
    if collect:
        return {"evaluations": n_ev, "nontrivial": nontriv, "traces": len(traces), "verdict_counts": counts}
    return rep.finish({
        "evaluations": n_ev,
        "distinct_nontrivial": len(nontriv),
        "traces_validated_against_impl": len(traces) + rep.cov.get("traces_validated_against_impl", 0),   # + states replayed by the generator tiers
        "rule": rule,
        "verdict_counts": counts,
        "events_by_tactic_used": tactic_use,
        "exhaustive": False,
    })


def show(c):
    import rows as R

    return {"inv": c["inv"], "outv": c["outv"], "a": [R.row_str(r) for r in c["a"]], "g": [R.row_str(r) for r in c["g"]]}
