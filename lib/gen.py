"""Seeded generators of small exact inputs (integers / dyadic rationals) for the numeric families."""
from __future__ import annotations

VARS6 = ["u", "v", "w", "x", "y", "z"]


def rcoef(rng, maxc=3, dyadic=0.0):
    c = rng.choice([a for a in range(-maxc, maxc + 1) if a])
    if dyadic and rng.random() < dyadic:
        return c / 2.0
    return c


def rterm_raw(rng, vs, maxc=3, maxk=5, nmax=3, dyadic=0.0, must=None):
    """(coef dict, const) over a random non-empty subset of vs (|subset| <= nmax); `must` forces a variable in."""
    k = rng.randint(1, min(nmax, len(vs)))
    sub = rng.sample(vs, k)
    if must is not None and must not in sub:
        sub[0] = must
    co = {v: rcoef(rng, maxc, dyadic) for v in sub}
    c = rng.randint(-maxk, maxk)
    if dyadic and rng.random() < dyadic:
        c = c + 0.5
    return co, c


def rlist_raw(rng, vs, nmin, nmax, **kw):
    return [rterm_raw(rng, vs, **kw) for _ in range(rng.randint(nmin, nmax))]


def mk_term(raw):
    from pacti.iocontract import Var
    from pacti.terms.polyhedra import PolyhedralTerm

    co, c = raw
    return PolyhedralTerm({Var(v): a for v, a in co.items()}, c)


def mk_list(raws):
    from pacti.terms.polyhedra import PolyhedralTermList

    return PolyhedralTermList([mk_term(r) for r in raws])


class BuildCrash(ValueError):
    """the contract constructor of the tree under test raised something that is not a ValueError"""


_BUILD_NOTES = 0


def mk_contract(d, simplify=True):
    """d = {'inv','outv','a','g'} with raw term lists -> PolyhedralIoContract."""
    from pacti.contracts import PolyhedralIoContract
    from pacti.iocontract import Var

    try:
        return PolyhedralIoContract(
            assumptions=mk_list(d["a"]),
            guarantees=mk_list(d["g"]),
            input_vars=[Var(v) for v in d["inv"]],
            output_vars=[Var(v) for v in d["outv"]],
            simplify=simplify,
        )
    except ValueError:
        raise
    except Exception as e:  # noqa: BLE001
        # the generators use the constructor as a filter for their candidates ("except ValueError: next candidate"); a tree under test whose
        # constructor raises something else must not end the check as a machinery failure -- the candidate is passed over like an
        # unsatisfiable one (the constructor's exception classes are judged where contracts are built as EVENTS: C07, C10, C14)
        global _BUILD_NOTES
        _BUILD_NOTES += 1
        if _BUILD_NOTES <= 2:
            print("DRIVER-NOTE: the contract constructor raised %s (%s) on a generated candidate; candidate passed over" % (type(e).__name__, str(e)[:80]), flush=True)
        raise BuildCrash("the constructor raised %s: %s" % (type(e).__name__, e)) from e


def raw_str(raw):
    co, c = raw
    return " + ".join("%g*%s" % (a, v) for v, a in sorted(co.items())) + " <= %g" % c


def bounded_list_raw(rng, vs, lo=-5, hi=5):
    """box rows lo <= v <= hi for each variable (keeps LPs bounded / contracts satisfiable)."""
    out = []
    for v in vs:
        out.append(({v: 1}, rng.randint(1, hi)))
        out.append(({v: -1}, rng.randint(1, -lo)))
    return out


# ------------------------------------------------------------------ contracts and wirings
def rrow(rng, vs, must=None, nmax=2, maxc=3, dyadic=0.0, posbias=0.75):
    co, _ = rterm_raw(rng, vs, maxc=maxc, nmax=nmax, dyadic=dyadic, must=must)
    c = rng.randint(0, 5) if rng.random() < posbias else rng.randint(-5, -1)
    if dyadic and rng.random() < dyadic:
        c += 0.5
    return co, c


def band_rows(rng, o, xs, dyadic=0.0):
    """o tracks a linear function of the inputs xs within a band: two opposite rows."""
    co = {o: rng.choice([1, 1, 2])}
    for x in rng.sample(xs, rng.randint(1, min(2, len(xs)))) if xs else []:
        co[x] = -rcoef(rng, 3, dyadic)
    up, lo = rng.randint(0, 4), rng.randint(0, 4)
    return [(dict(co), up), ({v: -a for v, a in co.items()}, lo)]


def contract_raw(rng, inv, outv, na=(0, 2), ng=(1, 3), dyadic=0.0, nmax=3, band=0.0):
    a = [rrow(rng, inv, nmax=2, dyadic=dyadic) for _ in range(rng.randint(*na))] if inv else []
    if band and rng.random() < band:
        g = []
        for o in outv:
            rows = band_rows(rng, o, inv, dyadic)
            g += rows if rng.random() < 0.7 else [rng.choice(rows)]
        if rng.random() < 0.3:
            g.append(rrow(rng, inv + outv, nmax=nmax, dyadic=dyadic))
        if inv and rng.random() < 0.5:
            a = [({v: 1}, rng.randint(2, 5)) for v in inv if rng.random() < 0.8] + [({v: -1}, rng.randint(0, 3)) for v in inv if rng.random() < 0.6]
        return {"inv": list(inv), "outv": list(outv), "a": a, "g": g}
    g = []
    allv = inv + outv
    for _ in range(rng.randint(*ng)):
        must = rng.choice(outv) if outv and rng.random() < 0.85 else None
        g.append(rrow(rng, allv, must=must, nmax=nmax, dyadic=dyadic))
    return {"inv": list(inv), "outv": list(outv), "a": a, "g": g}


def column_heavy_rows(rng, ys, sg, extra=None):
    """three rows over ys: every row but one leans on the same column; each lean alone is dominated by
    the coefficient a term may have there, together they are not (tactics 1/3 must reject by the ACCUMULATED test)"""
    jstar = rng.randrange(len(ys))
    rows = []
    unit = rng.random() < 0.5           # all term coefficients 1, leans of 7/8 -- or coefficients 2 / 3, leans of 1
    for i_, y in enumerate(ys):
        co = {y: sg}
        if i_ != jstar:
            co[ys[jstar]] = sg * (0.875 if unit else rng.choice([1, 1, 0.75]))
        if extra and rng.random() < 0.4:
            co[extra] = rng.choice([-1, 1])
        rows.append((co, rng.randint(0, 3)))
    coef = {y: (1 if unit else 2) for y in ys}
    coef[ys[jstar]] = 1 if unit else 3
    return rows, coef


def fanout3_raw(rng):
    ys = ["y1", "y2", "y3"]
    sg = rng.choice([1, -1])
    rows, coef = column_heavy_rows(rng, ys, sg, "i")
    d1 = {"inv": ["i"], "outv": list(ys), "a": [({"i": 1}, 4), ({"i": -1}, 2)], "g": rows}
    if rng.random() < 0.5:
        # the consumer ASSUMES a bound on a combination of the three (refined through the producer's rows)
        d2 = {"inv": list(ys), "outv": ["p"], "a": [({y: sg * c for y, c in coef.items()}, rng.randint(8, 14))],
              "g": [({"p": 1, "y1": -1}, 2)]}
    else:
        # the consumer GUARANTEES its output against that combination (relaxed through the producer's rows)
        d2 = {"inv": list(ys), "outv": ["p"], "a": [], "g": [dict({"p": sg}, **{y: -sg * c for y, c in coef.items()}), 0]}
        d2["g"] = [(d2["g"][0], rng.randint(0, 3))]
    return d1, d2


SCHEMAS = ["indep", "cascade", "cascade_rev", "shared", "casc_shared", "feedback", "feedback_free", "fanout", "casc_extra", "sibling", "fanout_coupled", "fanout3",
           "tlp_degenerate", "t4_chain", "twins"]


def degenerate_rows(rng, ys, extra, with_point=False):
    """3-4 rows over the two variables ys (some also over `extra`) that all pass through one point, with a non-symmetric
    coefficient matrix: an LP over them has a DEGENERATE optimum there, and only some pairs of active rows bound a given
    combination of ys with non-negative multipliers (the shape tactic 5 has to get right)."""
    px = {y: rng.choice([0, 0, 1, -1]) for y in ys}
    rows = []
    if rng.random() < 0.5:
        # the first two rows, (4,1) and (3,2), do NOT bound y+z with non-negative multipliers (their multipliers are -1/5, 3/5), although
        # the multipliers of the TRANSPOSED system (1/5, 1/5) are non-negative; (4,1) with (1,2) does
        a, b = (ys[0], ys[1]) if rng.random() < 0.5 else (ys[1], ys[0])
        for ca, cb in ((4, 1), (3, 2), (1, 2)):
            co = {a: ca, b: cb}
            if extra and rng.random() < 0.5:
                co[extra] = rng.choice([-1, 1, 3])
            rows.append((co, sum(c * px.get(v, 0) for v, c in co.items())))
        return (rows, px) if with_point else rows
    for _ in range(rng.randint(3, 4)):
        co = {ys[0]: rng.choice([1, 2, 3, -1]), ys[1]: rng.choice([0, 1, 1, 2, -1])}
        co = {v: c for v, c in co.items() if c}
        if extra and rng.random() < 0.4:
            co[extra] = rng.choice([-1, 1])
        rows.append((co, sum(c * px.get(v, 0) for v, c in co.items())))
    rng.shuffle(rows)
    if with_point:
        return rows, px
    return rows


def pair_raw(rng, schema, dyadic=0.0):
    """Two raw contracts wired according to `schema`; returns (d1, d2, swap) -- swap means call d2.op(d1)."""
    swap = False
    B = 0.7  # producers mostly guarantee bands, so that consumers' assumptions can be discharged
    if schema == "indep":
        d1 = contract_raw(rng, ["i"], ["o"], dyadic=dyadic)
        d2 = contract_raw(rng, ["j"], ["p"], dyadic=dyadic)
    elif schema in ("cascade", "cascade_rev"):
        d1 = contract_raw(rng, ["i"], ["y"], dyadic=dyadic, band=B)
        d2 = contract_raw(rng, ["y"], ["p"], na=(1, 2), dyadic=dyadic, band=B)
        swap = schema == "cascade_rev"
    elif schema == "shared":
        d1 = contract_raw(rng, ["i", "s"], ["o"], dyadic=dyadic)
        d2 = contract_raw(rng, ["s", "j"], ["p"], dyadic=dyadic)
    elif schema == "casc_shared":
        d1 = contract_raw(rng, ["i", "s"], ["y"], dyadic=dyadic, band=B)
        d2 = contract_raw(rng, ["y", "s"], ["p"], na=(1, 2), dyadic=dyadic, band=B)
        swap = rng.random() < 0.3
    elif schema == "feedback":
        d1 = contract_raw(rng, ["i", "p"], ["y"], dyadic=dyadic)
        d2 = contract_raw(rng, ["y"], ["p"], na=(0, 1), dyadic=dyadic)
    elif schema == "feedback_free":
        # a cycle whose fed-back inputs are unconstrained by assumptions
        d1 = contract_raw(rng, ["i", "p"], ["y"], na=(0, 0), dyadic=dyadic, band=B)
        d1["a"] = [rrow(rng, ["i"], nmax=1)] if rng.random() < 0.6 else []
        d2 = contract_raw(rng, ["y", "j"], ["p"], na=(0, 0), dyadic=dyadic, band=B)
        d2["a"] = [rrow(rng, ["j"], nmax=1)] if rng.random() < 0.6 else []
    elif schema == "fanout":
        d1 = contract_raw(rng, ["i"], ["y", "z"], ng=(2, 3), dyadic=dyadic, band=B)
        d2 = contract_raw(rng, ["y", "z"], ["p"], na=(1, 2), dyadic=dyadic, band=B)
    elif schema == "fanout3":
        d1, d2 = fanout3_raw(rng)
    elif schema == "twins":
        # two terms that are easily taken for one another sit on the two sides: a near twin (a coefficient larger by 10^-5 of itself), the same
        # coefficients handed to other variables, or another first coefficient -- as assumptions of both over shared inputs, or as a
        # guarantee of the producer next to an assumption of the consumer.  Different constraints; each must be honoured.
        from props import c08

        a_, b_ = rng.choice([1, 2, 3]), rng.choice([1, 2, 5])
        k = rng.random()
        if rng.random() < 0.5:
            r = ({"x": a_, "w": -b_}, rng.choice([0, 1]))
            base, twin = c08.near_twin(rng, r) if k < 0.4 else ((r, c08.permuted_twin(r)) if k < 0.7 and a_ != b_ else (r, c08.first_coefficient_twin(r)))
            d1 = {"inv": ["x", "w"], "outv": ["y"], "a": [base], "g": [({"y": 1, "x": -1}, rng.randint(0, 2))]}
            d2 = {"inv": ["x", "w", "y"], "outv": ["p"], "a": [twin], "g": [({"p": 1, "y": -1}, 0)]}
        else:
            r = ({"y": a_, "i": -b_}, rng.choice([0, 1]))
            base, twin = c08.near_twin(rng, r) if k < 0.4 else ((r, c08.permuted_twin(r)) if k < 0.7 and a_ != b_ else (r, c08.first_coefficient_twin(r)))
            d1 = {"inv": ["i"], "outv": ["y"], "a": [({"i": 1}, 5), ({"i": -1}, 5)], "g": [base]}
            d2 = {"inv": ["y", "i"], "outv": ["p"], "a": [twin], "g": [({"p": 1, "y": -1}, 0)]}
        if rng.random() < 0.5:
            swap = True
    elif schema == "t4_chain":
        # the consumer's assumption on v can only be discharged through a producer row that LINKS v to a second output w (and inputs), and a
        # bound on w: tactic 4's recursion.  Orientations are random: some chains bound v from the right side, some from the wrong one
        s1, s2, s3 = rng.choice([1, -1]), rng.choice([1, -1]), rng.choice([1, -1])
        link = ({"v": -s1, "w": s2 * rng.choice([1, 2]), "i": rng.choice([-1, 1])}, rng.randint(0, 2))
        bound = ({"w": s3, "i2": -rng.choice([1, 2])}, rng.randint(0, 3))
        d1 = {"inv": ["i", "i2"], "outv": ["v", "w"], "a": [], "g": [link, bound] if rng.random() < 0.5 else [bound, link]}
        d2 = {"inv": ["v", "j"], "outv": ["p"], "a": [({"v": rng.choice([1, 1, -1]), "j": rng.choice([1, 2])}, rng.randint(4, 10))], "g": [({"p": 1, "j": -1}, 0)]}
    elif schema == "tlp_degenerate" and rng.random() < 0.5:
        # three producer guarantees over both outputs whose bounds MOVE with the input and which all pass through one point when the input
        # sits at the end of its assumed range: the LP of tactic 5 (over outputs and input) has a degenerate optimum there with four
        # active rows, and the first two of them, (4,1) and (3,2), do not bound y + z with non-negative multipliers
        Z, U, V = rng.choice([10, 5, 8]), rng.choice([10, 4, 6]), rng.choice([10, 3, 7])
        ya, zb = ("y", "z") if rng.random() < 0.5 else ("z", "y")
        rows = [({ya: a, zb: b, "i": c}, a * U + b * V + c * Z) for a, b, c in ((4, 1, 10), (3, 2, -3), (1, 2, -1))]
        d1 = {"inv": ["i"], "outv": ["y", "z"], "a": [({"i": 1}, Z), ({"i": -1}, 0)], "g": rows}
        d2 = {"inv": ["y", "z", "s"], "outv": ["p"], "a": [({"s": 1, "y": 1, "z": 1}, rng.randint(3, 8))], "g": [({"p": 1, "s": -1}, 0)]}
    elif schema == "tlp_degenerate":
        # the consumer's assumption needs a bound on a combination of BOTH producer outputs, and the producer's guarantees meet in one point
        a = {v: rng.choice([1, 2, 3]) * rng.choice([1, 1, -1]) for v in ("y", "z")}
        if rng.random() < 0.5:
            a = {"y": 1, "z": 1} if rng.random() < 0.6 else {"y": 2, "z": 2}
        d1 = {"inv": ["i"], "outv": ["y", "z"], "a": [({"i": 1}, 0)] + ([({"i": -1}, rng.randint(0, 3))] if rng.random() < 0.5 else []),
              "g": degenerate_rows(rng, ["y", "z"], "i")}
        d2 = {"inv": ["y", "z", "s"], "outv": ["p"], "a": [(dict(a, s=rng.choice([-1, 1, 2])), rng.randint(2, 10))],
              "g": [({"p": 1, "s": -1}, rng.randint(0, 2))]}
    elif schema == "fanout_coupled":
        # the producer's guarantees couple its two outputs (rows of a 2x2 system, dominant or not);
        # the consumer's guarantee needs a bound on a combination of both: tactics 1 / 3 with two internal variables
        sg = rng.choice([1, -1])
        rows = []
        for _ in range(2):
            m1, m2 = rng.choice([1, 1, 2, 3]), rng.choice([1, 1, 2, 3])
            co = {"y": sg * m1, "z": sg * m2}
            if rng.random() < 0.3:
                co[rng.choice(["y", "z"])] /= rng.choice([4, 8])
            if rng.random() < 0.4:
                co["i"] = rng.choice([-1, 1])
            rows.append((co, rng.randint(0, 4)))
        d1 = {"inv": ["i"], "outv": ["y", "z"], "a": [({"i": 1}, 3), ({"i": -1}, 2)] if rng.random() < 0.5 else [], "g": rows}
        d2 = {"inv": ["y", "z"], "outv": ["p"], "a": [],
              "g": [({"p": sg, "y": -sg * rng.choice([1, 2]), "z": -sg * rng.choice([1, 2, 3])}, rng.randint(0, 3))]}
        if rng.random() < 0.3:
            d2["g"].append(rrow(rng, ["p"], nmax=1))
    elif schema == "sibling":
        # the producer bounds its output from one side only; the consumer's two assumptions bound it from
        # the other side and could only be discharged through each other (which would be circular)
        sg = rng.choice([1, -1])
        d1 = {"inv": ["i"], "outv": ["y"], "a": [], "g": [({"y": -sg, "i": rng.choice([1, 2, -1])}, rng.randint(0, 3))]}
        d2 = {"inv": ["y", "s"], "outv": ["p"],
              "a": [({"s": rng.choice([1, 2]), "y": sg * rng.choice([1, 2])}, rng.randint(3, 8)), ({"y": sg}, rng.randint(2, 6))],
              "g": [rrow(rng, ["y", "s", "p"], must="p", nmax=2)]}
        if rng.random() < 0.5:
            d2["a"].reverse()
        swap = rng.random() < 0.3
    else:  # casc_extra: the consumer has a private input and the producer a private output
        d1 = contract_raw(rng, ["i"], ["y", "o"], ng=(2, 3), dyadic=dyadic, band=B)
        d2 = contract_raw(rng, ["y", "j"], ["p"], na=(1, 2), dyadic=dyadic, band=B)
        swap = rng.random() < 0.3
    return d1, d2, swap


def build_pair(rng, schema, dyadic=0.0, tries=30):
    """Raw pair whose contracts construct (constructor simplification succeeds)."""
    for _ in range(tries):
        d1, d2, swap = pair_raw(rng, schema, dyadic)
        try:
            mk_contract(d1)
            mk_contract(d2)
        except ValueError:
            continue
        return d1, d2, swap
    return None


def keep_choices(rng, d1, d2):
    outs = d1["outv"] + d2["outv"]
    conn = [v for v in d1["outv"] if v in d2["inv"]] + [v for v in d2["outv"] if v in d1["inv"]]
    opts = [[]]
    if conn:
        opts.append([rng.choice(conn)])
        opts.append(list(conn))
    opts.append([rng.choice(outs)])
    if rng.random() < 0.25:
        opts.append([rng.choice(outs), "stranger"] if rng.random() < 0.5 else ["stranger"])      # a name of neither contract
    return opts


def rorder(rng):
    r = rng.random()
    if r < 0.35:
        return None
    if r < 0.75:
        return [rng.choice([1, 2, 3, 4, 5])]
    return rng.sample([1, 2, 3, 4, 5], rng.randint(2, 5))
