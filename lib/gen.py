"""Seeded generators of small exact inputs (integers / dyadic rationals) for the numeric families."""
from __future__ import annotations

VARS6 = ["u", "v", "w", "x", "y", "z"]


def rcoef(rng, maxc=3, dyadic=0.0):
    c = rng.choice([a for a in range(-maxc, maxc + 1) if a])
    if dyadic and rng.random() < dyadic:
        return c / 2.0
    return c


def rterm_raw(rng, vs, maxc=3, maxk=5, nmax=3, dyadic=0.0, must=None):
    """(coef dict, const) over a random non-empty subset of vs (|subset| <= nmax); `must` forces a variable in."""
    k = rng.randint(1, min(nmax, len(vs)))
    sub = rng.sample(vs, k)
    if must is not None and must not in sub:
        sub[0] = must
    co = {v: rcoef(rng, maxc, dyadic) for v in sub}
    c = rng.randint(-maxk, maxk)
    if dyadic and rng.random() < dyadic:
        c = c + 0.5
    return co, c


def rlist_raw(rng, vs, nmin, nmax, **kw):
    return [rterm_raw(rng, vs, **kw) for _ in range(rng.randint(nmin, nmax))]


def mk_term(raw):
    from pacti.iocontract import Var
    from pacti.terms.polyhedra import PolyhedralTerm

    co, c = raw
    return PolyhedralTerm({Var(v): a for v, a in co.items()}, c)


def mk_list(raws):
    from pacti.terms.polyhedra import PolyhedralTermList

    return PolyhedralTermList([mk_term(r) for r in raws])


def mk_contract(d, simplify=True):
    """d = {'inv','outv','a','g'} with raw term lists -> PolyhedralIoContract."""
    from pacti.contracts import PolyhedralIoContract
    from pacti.iocontract import Var

    return PolyhedralIoContract(
        assumptions=mk_list(d["a"]),
        guarantees=mk_list(d["g"]),
        input_vars=[Var(v) for v in d["inv"]],
        output_vars=[Var(v) for v in d["outv"]],
        simplify=simplify,
    )


def raw_str(raw):
    co, c = raw
    return " + ".join("%g*%s" % (a, v) for v, a in sorted(co.items())) + " <= %g" % c


def bounded_list_raw(rng, vs, lo=-5, hi=5):
    """box rows lo <= v <= hi for each variable (keeps LPs bounded / contracts satisfiable)."""
    out = []
    for v in vs:
        out.append(({v: 1}, rng.randint(1, hi)))
        out.append(({v: -1}, rng.randint(1, -lo)))
    return out
