"""Event builders for the contract operations: run the real call, project operands and result onto
the specification's state, attach hints for the requested clause groups (spec/TraceOps.tla)."""
from __future__ import annotations

import clauses as C
import hints as H
import rows as R


def _grid(names, contracts=()):
    # TLC's own grid sweep multiplies excesses by 10^4: only for rows with small integers
    for c in contracts:
        for r in c["a"] + c["g"]:
            if max([abs(x) for x in r["co"].values()] + [abs(r["c"]), r["k"]]) > 20000:
                return 0
    return 2 if len(names) <= 4 else (1 if len(names) <= 6 else 0)


def family_clean(c):
    return {"inv": c["inv"], "outv": c["outv"], "a": [{k: r[k] for k in ("co", "c", "k")} for r in c["a"]],
            "g": [{k: r[k] for k in ("co", "c", "k")} for r in c["g"]]}


def _call(fn):
    try:
        return fn(), "none", ""
    except Exception as e:  # noqa: BLE001 - the class is what the specification judges
        return None, type(e).__name__, str(e)[:300]


def _finish(ev, res_obj, exc, msg, groups, clause_fn, operands=()):
    # the operands as they are AFTER the call (C06/C13: an operation must not edit its operands)
    after = [family_clean(C.pcontract(o)) for o in operands]
    before = [family_clean(ev[k]) for k in ("c1", "c2")][: len(after)]
    ev["intact"] = after == before
    ev["exc"] = exc
    ev["_msg"] = msg
    ev["groups"] = list(groups)
    ev["hints"] = {}
    ev["_clauses"] = {}
    if res_obj is None:
        ev["res"] = dict(C.EMPTY)
        ev["ok"] = True
    else:
        ev["res"] = C.pcontract(res_obj)
        ev["ok"] = C.contract_ok(ev["res"])
    names = set()
    for k in ("c1", "c2", "res"):
        if k in ev:
            names |= C.cvars(ev[k])
    for k in ("keep", "addl"):
        names |= set(ev.get(k, []))
    for k in ("s", "t"):
        if k in ev:
            names.add(ev[k])
    for m in ev.get("maps", []):
        names |= set(m)
    ev["names"] = sorted(names)
    ev["g"] = _grid(ev["names"], [ev[k] for k in ("c1", "c2", "res") if k in ev])
    if res_obj is not None and ev["ok"]:
        for grp in groups:
            cls = clause_fn(grp)
            if cls is None:
                continue
            ev["_clauses"][grp] = cls
            ev["hints"][grp] = C.hints_for(cls, ev["names"])
    return ev


def ev_compose(c1, c2, keep, simplify, order, groups):
    ev = {"op": "compose", "c1": C.pcontract(c1), "c2": C.pcontract(c2), "keep": list(keep), "addl": [], "s": "", "t": "",
          "simplify": bool(simplify), "order": list(order) if order else []}
    out, exc, msg = _call(lambda: c1.compose_tactics(c2, list(keep), simplify, list(order) if order else None))
    res = out[0] if out else None
    ev["_stats"] = [[int(s[0]) for s in st] for st in out[1]] if out else []

    def cf(grp):
        r = ev["res"]
        if grp == "sound":
            return C.compose_sound(ev["c1"], ev["c2"], r)
        if grp == "keeps":
            return C.keeps(ev["c1"], ev["c2"], r)
        if grp == "exact":
            connected = (set(ev["c1"]["outv"]) & set(ev["c2"]["inv"])) | (set(ev["c1"]["inv"]) & set(ev["c2"]["outv"]))
            return None if connected else C.exact(ev["c1"], ev["c2"], r)
        return None

    return _finish(ev, res, exc, msg, groups, cf, (c1, c2))


def ev_quotient(c, c1, addl, simplify, order, groups):
    from pacti.iocontract import Var

    ev = {"op": "quotient", "c1": C.pcontract(c), "c2": C.pcontract(c1), "keep": [], "addl": list(addl), "s": "", "t": "",
          "simplify": bool(simplify), "order": list(order) if order else []}
    out, exc, msg = _call(lambda: c.quotient_tactics(c1, [Var(v) for v in addl], simplify, list(order) if order else None))
    res = out[0] if out else None
    ev["_stats"] = [[int(s[0]) for s in st] for st in out[1]] if out else []

    def cf(grp):
        if grp == "sound":
            return C.quotient_sound(ev["c1"], ev["c2"], ev["res"])
        return None

    return _finish(ev, res, exc, msg, groups, cf, (c, c1))


def ev_merge(c1, c2, groups, p1=None, p2=None):
    # p1 / p2: the operand AS BUILT, when the object has been through earlier calls (read from a fresh construction, not from the object)
    ev = {"op": "merge", "c1": p1 or C.pcontract(c1), "c2": p2 or C.pcontract(c2), "keep": [], "addl": [], "s": "", "t": ""}
    res, exc, msg = _call(lambda: c1.merge(c2))
    ev["_stats"] = []

    def cf(grp):
        if grp == "exact":
            return C.exact(ev["c1"], ev["c2"], ev["res"])
        if grp == "keeps":
            return C.keeps(ev["c1"], ev["c2"], ev["res"])
        return None

    return _finish(ev, res, exc, msg, groups, cf, (c1, c2))


def _refusal_hint(ev, want):
    """a rename refused with ValueError: a point of the substituted contract (assumptions AND guarantees) shows the refusal was not
    owed to an unsatisfiable result (hint for TLC, which re-evaluates every row at the point)"""
    ev["refusal"] = dict(H.NONE)
    if ev["exc"] == "ValueError" and C.contract_ok(want) and C.contract_ok(ev["c1"]):
        names = sorted(set(ev["names"]) | C.cvars(want))
        ev["names"] = names
        h = H.feasible_point(want["a"] + want["g"], names)
        if h is not None:
            ev["refusal"] = H.strip(h)
    return ev


def ev_rename(c, s, t, groups):
    from pacti.iocontract import Var

    ev = {"op": "rename", "c1": C.pcontract(c), "c2": dict(C.EMPTY), "keep": [], "addl": [], "s": s, "t": t}
    res, exc, msg = _call(lambda: c.rename_variable(Var(s), Var(t)))
    ev["_stats"] = []

    def cf(grp):
        if grp == "faithful":
            return C.equiv(ev["res"], C.renamed(ev["c1"], s, t))
        return None

    return _refusal_hint(_finish(ev, res, exc, msg, groups, cf, (c,)), C.renamed(ev["c1"], s, t))


def ev_renames(c, maps, groups):
    """rename_variables with a list of mappings applied in order"""
    ev = {"op": "renames", "c1": C.pcontract(c), "c2": dict(C.EMPTY), "keep": [], "addl": [], "s": "", "t": "", "maps": [list(m) for m in maps]}
    res, exc, msg = _call(lambda: c.rename_variables([tuple(m) for m in maps]))
    ev["_stats"] = []

    def cf(grp):
        if grp == "faithful":
            want = ev["c1"]
            for s_, t_ in maps:
                want = C.renamed(want, s_, t_)
            return C.equiv(ev["res"], want)
        return None

    ev = _finish(ev, res, exc, msg, groups, cf, (c,))
    for s_, t_ in maps:
        ev["names"] = sorted(set(ev["names"]) | {s_, t_})
    want, clash = ev["c1"], False
    for s_, t_ in maps:
        clash = clash or (s_ in C.itf(want) and s_ != t_ and ((s_ in want["inv"] and t_ in want["outv"]) or (s_ in want["outv"] and t_ in want["inv"])))
        want = C.renamed(want, s_, t_)
    return _refusal_hint(ev, want) if not clash else dict(ev, refusal=dict(H.NONE))


def reconfirm_event(ev, grp, detail):
    """detail like 'sound:3' -> re-evaluate clause 3 of the group exactly on the unsnapped rows."""
    parts = detail.split(":")
    if parts[0] != grp or len(parts) < 2 or not parts[1].isdigit():
        return True  # structural violations (interface, exception class) need no numeric confirmation
    i = int(parts[1]) - 1
    cl = ev["_clauses"][grp][i]
    return C.reconfirm(cl, ev["hints"][grp][i], ev["names"], ev["g"])


def tactics_used(ev):
    return sorted({t for st in ev.get("_stats", []) for t in st if t > 0})
