"""Bounded-exhaustive conformance of pacti/utils/lists.py and the TermList operators built on it with spec/ListOps.tla:
TLC checks the laws on every pair of lists up to length 3 over 3 elements and, in generator mode, prints each pair with the
results the specification assigns; every pair is replayed into the real functions on plain values, on Var objects (fresh
objects, so that equality is by name) and on terms through `&`, `-`, `|` (element 2 is a near twin of element 1: its
coefficient differs by 2^-20 of itself, a different element).  Mismatches are SPEC-DRIFT lines."""
from __future__ import annotations

import json
import re

from tlcrun import require_clean, run_tlc, stats_of
from vcommon import die


def conformance(rep, rd, prop):
    res = run_tlc("ListOps", "ListOps.cfg", rd, timeout=600)
    require_clean(res, "ListOps")
    st = stats_of(res)
    st["invariants_violated"] = res["invariant_violated"]
    rep.add_tlc(st)
    if res["invariant_violated"]:
        print("SPEC-DRIFT property=%s design-level invariant %s violated in ListOps.tla" % (prop, res["invariant_violated"]), flush=True)
    res = run_tlc("ListOps", "ListOps_gen.cfg", rd, workers=1, timeout=600)
    require_clean(res, "ListOps_gen")
    rep.add_tlc(stats_of(res))
    pairs, seen = [], set()
    for m in re.finditer(r'<<"PAIR", "(.*?)">>\s*$', res["out"], re.M):
        if m.group(1) not in seen:          # the constraint is evaluated on the stuttering successor too
            seen.add(m.group(1))
            pairs.append(json.loads(m.group(1).encode().decode("unicode_escape")))
    if len(pairs) < 1600:
        die("ListOps.tla emitted only %d pairs" % len(pairs))

    from pacti.iocontract import Var
    from pacti.terms.polyhedra import PolyhedralTerm, PolyhedralTermList
    from pacti.utils import lists as L

    def var_of(k):
        return Var("v%d" % k)

    def term_of(k):
        x, y = Var("x"), Var("y")
        return [None, PolyhedralTerm({x: 1}, 1), PolyhedralTerm({x: 1 + 2.0**-20}, 1), PolyhedralTerm({y: 1, x: -1}, 0)][k]

    def tag(t):
        for k in (1, 2, 3):
            r = term_of(k)
            if {str(v): float(c) for v, c in t.variables.items()} == {str(v): float(c) for v, c in r.variables.items()} and float(t.constant) == float(r.constant):
                return k
        return 0

    drift, n = 0, 0
    for p in pairs:
        a, b = p["a"], p["b"]
        got = [("plain", L.list_intersection(list(a), list(b)), L.list_diff(list(a), list(b)), L.list_union(list(a), list(b)), L.lists_equal(list(a), list(b)))]
        va, vb = [var_of(k) for k in a], [var_of(k) for k in b]
        got.append(("Var", [int(v.name[1:]) for v in L.list_intersection(va, vb)], [int(v.name[1:]) for v in L.list_diff(va, vb)],
                    [int(v.name[1:]) for v in L.list_union(va, vb)], L.lists_equal(va, vb)))
        ta, tb = PolyhedralTermList([term_of(k) for k in a]), PolyhedralTermList([term_of(k) for k in b])
        got.append(("TermList", [tag(t) for t in (ta & tb).terms], [tag(t) for t in (ta - tb).terms], [tag(t) for t in (ta | tb).terms], p["same"]))
        for kind, inter, diff, union, same in got:
            n += 1
            if [inter, diff, union, bool(same)] != [p["inter"], p["diff"], p["union"], bool(p["same"])]:
                drift += 1
                if drift <= 3:
                    print("SPEC-DRIFT property=%s list operations on %s differ from ListOps.tla for a=%s b=%s: got inter=%s diff=%s union=%s same=%s" %
                          (prop, kind, a, b, inter, diff, union, same), flush=True)
    rep.cov["list_operations_conformance"] = {"pairs_enumerated_by_tlc": len(pairs), "replays": n, "spec_drift": drift}
    rep.cov["traces_validated_against_impl"] = rep.cov.get("traces_validated_against_impl", 0) + len(pairs)
    return len(pairs), drift
