"""Bounded-exhaustive conformance of the term-list <-> matrix conversion layer with spec/Matrix.tla (in the manner of
listdrv.py): TLC checks Laws on every (terms, context) of the small universe, refutes the wrong variant (rows laid out in
the term's own key order), and in generator mode prints each pair with the matrices and the converted-back terms the
specification assigns; every pair is replayed into the real PolyhedralTermList.termlist_to_polytope /
polytope_to_termlist / PolyhedralTerm.term_to_polytope / polytope_to_term.  Mismatches are SPEC-DRIFT lines."""
from __future__ import annotations

import json
import re

from tlcrun import require_clean, run_tlc, stats_of
from vcommon import die

NAMES = {1: "x", 2: "y", 3: "z"}


def _design(rep, rd, prop, tier):
    cfgs = [("Matrix_quick.cfg", None), ("Matrix_wrong1.cfg", "Laws")]
    if tier != "quick":
        cfgs.insert(1, ("Matrix.cfg", None))
    for cfg, must in cfgs:
        res = run_tlc("Matrix", cfg, rd, timeout=1800, gc="parallel")
        st = stats_of(res)
        st["invariants_violated"] = res["invariant_violated"]
        if must:
            if must not in str(res["invariant_violated"]):
                die("Matrix/%s: expected TLC to refute %s (wrong variant), got %r" % (cfg, must, res["invariant_violated"]))
            st["expected_violation"] = must
            rep.add_tlc(st)
            continue
        require_clean(res, "Matrix/" + cfg)
        rep.add_tlc(st)
        if res["invariant_violated"]:
            print("SPEC-DRIFT property=%s design-level invariant %s violated in Matrix.tla (%s)" % (prop, res["invariant_violated"], cfg), flush=True)


def _cases(rep, rd, cfg):
    res = run_tlc("Matrix", cfg, rd, workers=1, timeout=1800)
    require_clean(res, cfg)
    rep.add_tlc(stats_of(res))
    out, seen = [], set()
    for m in re.finditer(r'<<"CASE", "(.*?)">>\s*$', res["out"], re.M):
        if m.group(1) not in seen:          # the constraint is evaluated on the stuttering successor too
            seen.add(m.group(1))
            out.append(json.loads(m.group(1).encode().decode("unicode_escape")))
    return out


def conformance(rep, rd, prop, tier="quick"):
    _design(rep, rd, prop, tier)
    cases = _cases(rep, rd, "Matrix_gen2.cfg")
    if len(cases) < 18000:
        die("Matrix.tla (2 variables) emitted only %d cases" % len(cases))
    if tier != "quick":
        more = _cases(rep, rd, "Matrix_gen3.cfg")
        if len(more) < 31000:
            die("Matrix.tla (3 variables) emitted only %d cases" % len(more))
        cases += more

    import numpy as np
    from pacti.iocontract import Var
    from pacti.terms.polyhedra import PolyhedralTerm, PolyhedralTermList

    def term(t):
        return PolyhedralTerm({Var(NAMES[k]): c for k, c in zip(t["ks"], t["cf"])}, t["c"])

    def shape_of_term(t):
        return {"ks": [v.name for v in t.variables], "cf": [float(c) for c in t.variables.values()], "c": float(t.constant)}

    def want_term(t):
        return {"ks": [NAMES[k] for k in t["ks"]], "cf": [float(c) for c in t["cf"]], "c": float(t["c"])}

    drift, n = 0, 0
    for cs in cases:
        T, H, p = cs["t"], cs["h"], cs["p"]
        tl, hl = PolyhedralTermList([term(t) for t in T]), PolyhedralTermList([term(t) for t in H])
        before = [shape_of_term(t) for t in tl.terms + hl.terms]
        why = None
        try:
            variables, a, b, ah, bh = PolyhedralTermList.termlist_to_polytope(tl, hl)
            got = {"vars": [v.name for v in variables], "a": np.asarray(a).tolist(), "b": np.asarray(b).tolist(),
                   "ah": np.asarray(ah).tolist(), "bh": np.asarray(bh).tolist()}
            want = {"vars": [NAMES[k] for k in p["vars"]], "a": [[float(x) for x in r] for r in p["a"]], "b": [float(x) for x in p["b"]],
                    "ah": [[float(x) for x in r] for r in p["ah"]], "bh": [float(x) for x in p["bh"]]}
            for k in want:
                if got[k] != want[k]:
                    why = "termlist_to_polytope %s = %s, the specification gives %s" % (k, got[k], want[k])
                    break
            if why is None:
                back = PolyhedralTermList.polytope_to_termlist(np.asarray(a), np.asarray(b), variables)
                gb, wb = [shape_of_term(t) for t in back.terms], [want_term(t) for t in cs["back"]]
                if gb != wb:
                    why = "polytope_to_termlist gives %s, the specification gives %s" % (gb, wb)
            if why is None:
                # the single-term functions, against an arbitrary (reversed) column order
                rev = list(reversed(variables))
                for t, row, k in zip(tl.terms, want["a"], want["b"]):
                    r, c = PolyhedralTerm.term_to_polytope(t, rev)
                    if [float(x) for x in r] != list(reversed(row)) or float(c) != k:
                        why = "term_to_polytope(%s, reversed columns) = %s, %s" % (t, r, c)
                        break
                    t2 = PolyhedralTerm.polytope_to_term(r, c, rev)
                    if not (t2 == t):
                        why = "polytope_to_term(term_to_polytope(t)) = %s for t = %s" % (t2, t)
                        break
            if why is None and before != [shape_of_term(t) for t in tl.terms + hl.terms]:
                why = "the conversion changed its operands"
        except Exception as e:  # noqa: BLE001
            why = "raised %s: %s" % (type(e).__name__, e)
        n += 1
        if why:
            drift += 1
            if drift <= 3:
                print("SPEC-DRIFT property=%s matrix conversion differs from Matrix.tla for terms=%s context=%s: %s" % (prop, json.dumps(T), json.dumps(H), why), flush=True)
    rep.cov["matrix_conversion_conformance"] = {"cases_enumerated_by_tlc": len(cases), "replays": n, "spec_drift": drift}
    rep.cov["traces_validated_against_impl"] = rep.cov.get("traces_validated_against_impl", 0) + len(cases)
    return len(cases), drift
