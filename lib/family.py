"""Driver plumbing shared by the numeric families: run workers in parallel, write ndjson traces,
have TLC judge them, collect verdict lines."""
from __future__ import annotations

import json
import multiprocessing as mp
import os
import random
import sys

from vcommon import NPROC, die
from tlcrun import parse_verdicts, run_tlc, stats_of


def _init_worker():
    # each worker binds the pacti under test and pins BLAS threads
    import vcommon

    vcommon.bind_pacti()
    import logging

    logging.disable(logging.CRITICAL)


def pmap(fn, items, chunksize=4, procs=None):
    """Order-preserving parallel map in forked workers (deterministic: results merged by index)."""
    procs = procs or NPROC
    if procs <= 1 or len(items) < 4:
        _init_worker()
        return [fn(x) for x in items]
    ctx = mp.get_context("fork")
    with ctx.Pool(procs, initializer=_init_worker) as pool:
        return pool.map(fn, items, chunksize=chunksize)


def clean_json(o):
    """Drop private keys (leading underscore) before a trace goes to TLC."""
    if isinstance(o, dict):
        return {k: clean_json(v) for k, v in o.items() if not str(k).startswith("_")}
    if isinstance(o, (list, tuple)):
        return [clean_json(v) for v in o]
    return o


def judge_traces(report, module, cfg, traces, rundir, batch=400, workers=None, timeout=3000, env=None):
    """traces: list of {'id': int, 'ev': [events]}.  Returns {(id, l, group): (kind, detail)}.

    One TLC run per batch; every event must come back with exactly one VERDICT line, otherwise
    the batch is re-run single-threaded, and if that fails too the run is a machinery failure."""
    verdicts = {}
    for b0 in range(0, len(traces), batch):
        chunk = traces[b0 : b0 + batch]
        path = os.path.join(rundir, "%s-%d.ndjson" % (module, b0))
        with open(path, "w") as f:
            for t in chunk:
                f.write(json.dumps(clean_json(t), separators=(",", ":")) + "\n")
        expect = {(t["id"], l + 1, g) for t in chunk for l, e in enumerate(t["ev"]) for g in e.get("groups", ["elim"])}
        got = None
        for attempt, w in enumerate((workers or NPROC, 1)):
            e = {"TRACE_FILE": path}
            if env:
                e.update(env)
            res = run_tlc(module, cfg, rundir, env=e, workers=w, timeout=timeout)
            if res["timed_out"] or res["error"] or res["rc"] != 0:
                tail = "\n".join(res["out"].splitlines()[-30:])
                if attempt == 1:
                    die("trace validation %s failed (rc=%s)\n%s" % (module, res["rc"], tail))
                continue
            v = parse_verdicts(res["out"])
            got = {}
            bad = False
            for tid, lst in v.items():
                for fields in lst:
                    try:
                        key = (int(tid), int(fields[0]), fields[1])
                    except (ValueError, IndexError):
                        bad = True
                        continue
                    if key in got:
                        bad = True
                    got[key] = (fields[2], fields[3] if len(fields) > 3 else "")
            if not bad and set(got) == expect:
                report.add_tlc(stats_of(res))
                break
            got = None
        if got is None:
            die("trace validation %s: verdict lines do not match the events sent" % module)
        verdicts.update(got)
        try:
            os.remove(path)
        except OSError:
            pass
    return verdicts


def rng_for(seed_, *salt):
    return random.Random("%d/%s" % (seed_, "/".join(str(s) for s in salt)))
