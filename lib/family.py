"""Driver plumbing shared by the numeric families: run workers in parallel, write ndjson traces,
have TLC judge them, collect verdict lines."""
from __future__ import annotations

import json
import multiprocessing as mp
import os
import random
import sys

from vcommon import NPROC, die
from tlcrun import parse_verdicts, run_tlc, stats_of


def _init_worker():
    # each worker binds the pacti under test and pins BLAS threads
    import vcommon

    vcommon.bind_pacti()
    import logging

    logging.disable(logging.CRITICAL)


def pmap(fn, items, chunksize=4, procs=None):
    """Order-preserving parallel map in forked workers (deterministic: results merged by index)."""
    procs = procs or NPROC
    if procs <= 1 or len(items) < 4:
        _init_worker()
        return [fn(x) for x in items]
    ctx = mp.get_context("fork")
    with ctx.Pool(procs, initializer=_init_worker) as pool:
        return pool.map(fn, items, chunksize=chunksize)


def clean_json(o):
    """Drop private keys (leading underscore) before a trace goes to TLC."""
    if isinstance(o, dict):
        return {k: clean_json(v) for k, v in o.items() if not str(k).startswith("_")}
    if isinstance(o, (list, tuple)):
        return [clean_json(v) for v in o]
    return o


def _judge_chunk(report, module, cfg, chunk, rundir, tag, workers, timeout, env):
    """One TLC run over `chunk`.  Returns (verdict dict, None) or (None, reason)."""
    path = os.path.join(rundir, "%s-%s.ndjson" % (module, tag))
    with open(path, "w") as f:
        for t in chunk:
            f.write(json.dumps(clean_json(t), separators=(",", ":")) + "\n")
    expect = {(t["id"], l + 1, g) for t in chunk for l, e in enumerate(t["ev"]) for g in e.get("groups", ["elim"])}
    reason = "?"
    try:
        for w in (workers or NPROC, 1):
            e = {"TRACE_FILE": path}
            if env:
                e.update(env)
            res = run_tlc(module, cfg, rundir, env=e, workers=w, timeout=timeout)
            if res["timed_out"] or res["error"] or res["rc"] != 0:
                m = [ln for ln in res["out"].splitlines() if "Overflow" in ln or ln.startswith("Error:")]
                reason = "tlc-error: " + (m[-1][:120] if m else "rc=%s" % res["rc"])
                if "Overflow" in res["out"]:
                    break          # deterministic: re-running single-threaded cannot help
                continue
            v = parse_verdicts(res["out"])
            got, bad = {}, False
            for tid, lst in v.items():
                for fields in lst:
                    try:
                        key = (int(tid), int(fields[0]), fields[1])
                    except (ValueError, IndexError):
                        bad = True
                        continue
                    if key in got:
                        bad = True
                    got[key] = (fields[2], fields[3] if len(fields) > 3 else "")
            if not bad and set(got) == expect:
                report.add_tlc(stats_of(res))
                return got, None
            reason = "verdict lines do not match the events sent"
        return None, reason
    finally:
        try:
            os.remove(path)
        except OSError:
            pass


def judge_traces(report, module, cfg, traces, rundir, batch=400, workers=None, timeout=3000, env=None):
    """traces: list of {'id': int, 'ev': [events]}.  Returns {(id, l, group): (kind, detail)}.

    One TLC run per batch; every event must come back with exactly one VERDICT line.  When a
    batch makes TLC fail (e.g. an arithmetic overflow that the magnitude pre-checks did not
    foresee) it is split recursively; a single trace that still fails is reported loudly and all
    its events become `unjudged` (never a verdict, never a silent pass of the others).  If more
    than 2% of the traces end up like that the run is a machinery failure."""
    verdicts, failed = {}, []

    def rec(chunk, tag):
        got, reason = _judge_chunk(report, module, cfg, chunk, rundir, tag, workers, timeout, env)
        if got is not None:
            verdicts.update(got)
            return
        if len(chunk) == 1:
            t = chunk[0]
            failed.append((t["id"], reason))
            print("TLC-ERROR %s trace %s: %s -- its events are counted as unjudged" % (module, t["id"], reason), flush=True)
            for l, e in enumerate(t["ev"]):
                for g in e.get("groups", ["elim"]):
                    verdicts[(t["id"], l + 1, g)] = ("unjudged", "tlc-error")
            return
        mid = len(chunk) // 2
        rec(chunk[:mid], tag + "a")
        rec(chunk[mid:], tag + "b")

    for b0 in range(0, len(traces), batch):
        rec(traces[b0 : b0 + batch], str(b0))
    if len(failed) > max(2, len(traces) // 50):
        die("trace validation %s: TLC failed on %d of %d traces (first: %s)" % (module, len(failed), len(traces), failed[0]))
    if failed:
        report.notes.append("%s: TLC failed on traces %s (events unjudged)" % (module, [f[0] for f in failed][:10]))
    return verdicts


def rng_for(seed_, *salt):
    return random.Random("%d/%s" % (seed_, "/".join(str(s) for s in salt)))
