"""Python mirror of the clause lists of spec/Contracts.tla (same order), used ONLY to compute the
untrusted hints that TLC then checks against the clause lists it builds itself.  If this mirror
disagrees with the specification, certificates do not verify and the event is `unjudged` or
`malformed`; it can never produce a verdict.

Rows here are dicts {co, c, k} with private audit fields _dev (exact deviation bound of the
snapped row, Fraction), _exact ((co, c) in Fractions) that are stripped before TLC sees them.
"""
from __future__ import annotations

import itertools
from fractions import Fraction as F

import hints as H
import rows as R


# ------------------------------------------------------------------ rows with audit info
def prow(t):
    r, info = R.snap_term(t)
    r["_dev"], r["_exact"], r["_ok"], r["_eqok"] = info["dev"], info["exact"], info["ok"], info["eqok"]
    return r


def prows(tl):
    return [prow(t) for t in tl.terms]


def exact_of(r):
    if r.get("_exact") is not None:
        return r["_exact"]
    return ({v: F(a, r["k"]) for v, a in r["co"].items()}, F(r["c"], r["k"]))


def dev_of(r):
    return r.get("_dev", F(0))


def pcontract(c):
    return {"inv": [str(v) for v in c.inputvars], "outv": [str(v) for v in c.outputvars], "a": prows(c.a), "g": prows(c.g)}


EMPTY = {"inv": [], "outv": [], "a": [], "g": []}


def contract_ok(c):
    return all(r.get("_ok", True) for r in c["a"] + c["g"])


def itf(c):
    return set(c["inv"]) | set(c["outv"])


def cvars(c):
    return itf(c) | R.rows_vars(c["a"]) | R.rows_vars(c["g"])


# ------------------------------------------------------------------ clause lists (mirror)
def comp(c):
    return {"a": c["a"], "g": c["g"]}


def clauses_for(base, comps, targets):
    return [(base, comps, t) for t in targets]


def compose_sound(c1, c2, r):
    return clauses_for(r["a"], [comp(c1), comp(c2)], c1["a"] + c2["a"] + r["g"])


def quotient_sound(c, c1, q):
    return clauses_for(c["a"], [comp(c1), comp(q)], c1["a"] + q["a"] + c["g"])


def keeps(c1, c2, r):
    return clauses_for(r["a"] + r["g"], [], [t for t in c1["g"] + c2["g"] if R.row_vars(t) <= itf(r)])


def exact(c1, c2, r):
    return (
        clauses_for(r["a"], [], c1["a"] + c2["a"])
        + clauses_for(c1["a"] + c2["a"], [], r["a"])
        + clauses_for(r["a"] + r["g"], [], c1["g"] + c2["g"])
        + clauses_for(c1["a"] + c2["a"] + c1["g"] + c2["g"], [], r["g"])
    )


def equiv(x, y):
    return (
        clauses_for(x["a"], [], y["a"])
        + clauses_for(y["a"], [], x["a"])
        + clauses_for(x["a"] + x["g"], [], y["g"])
        + clauses_for(y["a"] + y["g"], [], x["g"])
    )


def rename_row(r, s, t):
    if s == t or s not in r["co"]:
        return r
    co = {v: a for v, a in r["co"].items() if v != s}
    co[t] = r["co"].get(t, 0) + r["co"][s]
    out = {"co": {v: a for v, a in sorted(co.items())}, "c": r["c"], "k": r["k"]}
    # note: TLC keeps explicit zero coefficients; semantics are identical
    out["_dev"] = dev_of(r)
    return out


def renamed(c, s, t):
    if s == t or s not in itf(c):
        return c
    return {
        "inv": sorted((set(c["inv"]) - {s}) | {t}) if s in c["inv"] else list(c["inv"]),
        "outv": sorted((set(c["outv"]) - {s}) | {t}) if s in c["outv"] else list(c["outv"]),
        "a": [rename_row(r, s, t) for r in c["a"]],
        "g": [rename_row(r, s, t) for r in c["g"]],
    }


# ------------------------------------------------------------------ hints with audit
def _audit(h, hyp, t):
    """Transfer error of a certificate from the snapped rows to the unsnapped ones < 5% of tol."""
    L = h.get("_L")
    if L is None:
        return True
    err = dev_of(t)
    for i, r in enumerate(hyp):
        if i < len(L) and L[i] != 0:
            err += L[i] * dev_of(r)
    tol = F(t["k"] + abs(t["c"]), 10000) / t["k"]
    return err <= tol / 20


def hint_clause(cl, names, cache=None):
    base, comps, t = cl
    if not comps:
        h = H.hint_plain(base, names, t)
        if h["kind"] == "cert" and not _audit(h, base, t):
            h = dict(H.NONE)
        return h
    h = H.hint_guarded(base, comps, names, t, cache)
    for cs in H.all_cases(comps):
        k = H.case_key(cs)
        if k in h["cases"] and h["cases"][k]["kind"] == "cert":
            if not _audit(h["cases"][k], base + H.flat_case(comps, cs), t):
                h["cases"][k] = dict(H.NONE)
        elif k in h["cases"] and h["cases"][k]["kind"] == "empty":
            i = h["cases"][k]["d"] - 1
            if not _audit(h["cases"][k], base + H.flat_case_skip(comps, cs, i), comps[i]["a"][cs[i] - 1]):
                h["cases"][k] = dict(H.NONE)
    return h


def hints_for(cls, names):
    """Clause lists built by clauses_for share base/comps per block: empty-case certificates are
    target independent and cached per (base, comps) block."""
    out, caches = [], {}
    for cl in cls:
        key = (id(cl[0]), tuple(id(c["a"]) for c in cl[1]))
        out.append(hint_clause(cl, names, caches.setdefault(key, {})))
    return out


# ------------------------------------------------------------------ exact re-confirmation
SLACK = F(1, 10**7)


def grid_points(names, g):
    for vals in itertools.product(range(-g, g + 1), repeat=len(names)):
        yield dict(zip(names, vals))


def _lhs(co, pt):
    return sum(a * pt.get(v, 0) for v, a in co.items())


def holds_exact(r, pt):
    co, c = exact_of(r)
    return _lhs(co, pt) - c <= dev_of(r)


def broken_exact(r, pt):
    co, c = exact_of(r)
    return _lhs(co, pt) - c > F(1, 10000) * (1 + abs(c)) - dev_of(r)


def assumption_fails_exact(r, pt):
    co, c = exact_of(r)
    return _lhs(co, pt) - c > SLACK + dev_of(r)


def clause_violated_exact(cl, pt):
    """The property's own reading on the unsnapped floats: base holds, each component honours its
    contract (its assumptions fail beyond the 1e-7 slack, or its guarantees hold), target broken."""
    base, comps, t = cl
    if not all(holds_exact(r, pt) for r in base):
        return False
    for c in comps:
        if any(assumption_fails_exact(r, pt) for r in c["a"]):
            continue
        if not all(holds_exact(r, pt) for r in c["g"]):
            return False
    return broken_exact(t, pt)


def _snapped_sat(cl, q):
    base, comps, t = cl

    def ex(r):
        return sum(a * q.get(v, 0) for v, a in r["co"].items()) - r["c"]

    if any(ex(r) > 0 for r in base):
        return False
    for c in comps:
        if any(ex(r) > 0 and ex(r) * 1000 >= r["k"] for r in c["a"]):
            continue
        if any(ex(r) > 0 for r in c["g"]):
            return False
    e = ex(t)
    return e > 0 and e * 10000 > (t["k"] + abs(t["c"]))


def reconfirm(cl, h, names, g):
    """Find the point TLC used (hint witness, else its grid point) and re-evaluate exactly."""
    w = h.get("wit", h)
    if w.get("kind") == "witness":
        pt = {v: F(x, w["d"]) for v, x in w["q"].items()}
        return clause_violated_exact(cl, pt)
    if w.get("kind") == "witness2":
        pt = {v: F(x) + F(w["w"].get(v, 0), w["d"]) for v, x in w["q"].items()}
        return clause_violated_exact(cl, pt)
    if g > 0:
        for q in grid_points(names, g):
            if _snapped_sat(cl, q):
                return clause_violated_exact(cl, {v: F(x) for v, x in q.items()})
    return False
