"""Bounded-exhaustive conformance of the interface computations with spec/Itf.tla (in the manner of listdrv.py): in generator mode
TLC prints, for EVERY assignment of roles (input / output / absent) of three variables in two contracts and every option set, the
interface lists that compose / quotient / merge compute as coded (ORDERED) or the refusal they owe, and the three predicates; all
5 832 states are replayed into the real operations on contracts without constraints.  Mismatches are SPEC-DRIFT lines."""
from __future__ import annotations

import json
import re

from tlcrun import require_clean, run_tlc, stats_of
from vcommon import die


def conformance(rep, rd, prop):
    res = run_tlc("Itf", "Itf_gen.cfg", rd, workers=1, timeout=900)
    require_clean(res, "Itf_gen")
    rep.add_tlc(stats_of(res))
    cases, seen = [], set()
    for m in re.finditer(r'<<"CASE", "(.*?)">>\s*$', res["out"], re.M):
        if m.group(1) not in seen:
            seen.add(m.group(1))
            cases.append(json.loads(m.group(1).encode().decode("unicode_escape")))
    if len(cases) < 5832:
        die("Itf.tla emitted only %d states" % len(cases))

    from pacti.contracts import PolyhedralIoContract
    from pacti.iocontract import Var
    from pacti.terms.polyhedra import PolyhedralTermList
    from pacti.utils.errors import IncompatibleArgsError

    def mk(inv, outv):
        return PolyhedralIoContract(PolyhedralTermList([]), PolyhedralTermList([]), [Var(v) for v in inv], [Var(v) for v in outv])

    def names(c):
        return [v.name for v in c.inputvars], [v.name for v in c.outputvars]

    def outcome(fn):
        try:
            r = fn()
            return {"ok": True, "inv": names(r)[0], "outv": names(r)[1]}
        except IncompatibleArgsError:
            return {"ok": False}
        except Exception as e:  # noqa: BLE001
            return {"ok": False, "exc": type(e).__name__}

    drift = 0
    for cs in cases:
        c1, c2 = mk(cs["i1"], cs["o1"]), mk(cs["i2"], cs["o2"])
        opt = [Var(v) for v in cs["opt"]]
        got = {
            "compose": outcome(lambda: c1.compose(c2, vars_to_keep=list(opt))),
            "quotient": outcome(lambda: c1.quotient(c2, additional_inputs=list(opt))),
            "merge": outcome(lambda: c1.merge(c2)),
        }
        why = None
        for op in ("compose", "quotient", "merge"):
            w = cs[op]
            want = {"ok": True, "inv": w["inv"], "outv": w["outv"]} if w["ok"] else {"ok": False}
            if got[op] != want:
                why = "%s gives %s, the specification gives %s" % (op, got[op], want)
                break
        if why is None:
            preds = {"can_compose": bool(c1.can_compose_with(c2)), "can_quotient": bool(c1.can_quotient_by(c2)), "shares_io": bool(c1.shares_io_with(c2))}
            for k, v in preds.items():
                if v != bool(cs[k]):
                    why = "%s is %s, the specification gives %s" % (k, v, cs[k])
                    break
        if why is None and (names(c1), names(c2)) != ((cs["i1"], cs["o1"]), (cs["i2"], cs["o2"])):
            why = "an operation changed the interface lists of an operand"
        if why:
            drift += 1
            if drift <= 3:
                print("SPEC-DRIFT property=%s interface computation differs from Itf.tla for c1=(%s -> %s) c2=(%s -> %s) options=%s: %s" %
                      (prop, cs["i1"], cs["o1"], cs["i2"], cs["o2"], cs["opt"], why), flush=True)
    rep.cov["interface_conformance"] = {"states_enumerated_by_tlc": len(cases), "replays": 3 * len(cases), "spec_drift": drift}
    rep.cov["traces_validated_against_impl"] = rep.cov.get("traces_validated_against_impl", 0) + len(cases)
    return len(cases), drift
