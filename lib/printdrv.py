"""Bounded-exhaustive conformance of the string printer of constraint lists with spec/Serializer.tla: in generator mode TLC prints,
for every list of at most four abstract terms (two left-hand sides, both signs, bounds -1, 0, 1: 22 621 lists), the sequence of
strings the automaton emits -- plain row, equality, absolute value, each with the orientation and bound of the head term that
produced it -- and all of them are replayed into the real to_str_list().  Mismatches are SPEC-DRIFT lines."""
from __future__ import annotations

import json
import re

from tlcrun import require_clean, run_tlc, stats_of
from vcommon import die


def conformance(rep, rd, prop):
    res = run_tlc("Serializer", "Serializer_gen.cfg", rd, workers=1, timeout=1800)
    require_clean(res, "Serializer_gen")
    rep.add_tlc(stats_of(res))
    cases, seen = [], set()
    for m in re.finditer(r'<<"CASE", "(.*?)">>\s*$', res["out"], re.M):
        if m.group(1) not in seen:
            seen.add(m.group(1))
            cases.append(json.loads(m.group(1).encode().decode("unicode_escape")))
    if len(cases) < 22621:
        die("Serializer.tla emitted only %d lists" % len(cases))

    from pacti.iocontract import Var
    from pacti.terms.polyhedra import PolyhedralTerm, PolyhedralTermList

    x, y, z = Var("x"), Var("y"), Var("z")
    LHS = {1: {x: 1, y: 2}, 2: {x: 3, z: -1}}           # the coefficient of x is positive in the orientation sg = 1

    def term(t):
        return PolyhedralTerm({v: t["sg"] * a for v, a in LHS[t["id"]].items()}, t["c"])

    def read(s):
        """(kind, id, orientation, bound) of one printed string"""
        kind = "abs" if s.startswith("|") else ("eq" if " = " in s and "<=" not in s else "le")
        body = s[1:] if kind == "abs" else s
        sg = -1 if body.lstrip().startswith("-") else 1
        ident = 1 if "y" in s else 2
        c = float(re.split(r"<=|=", s)[-1])
        return kind, ident, sg, c

    drift = 0
    for cs in cases:
        tl = PolyhedralTermList([term(t) for t in cs["input"]])
        why = None
        try:
            got = [read(s) for s in tl.to_str_list()]
            want = [(o["kind"], o["t"]["id"], o["t"]["sg"], float(o["t"]["c"])) for o in cs["out"]]
            if got != want:
                why = "the printer emits %s, the specification gives %s" % (got, want)
            elif len(tl.terms) != len(cs["input"]):
                why = "printing changed the list"
        except Exception as e:  # noqa: BLE001
            why = "raised %s: %s" % (type(e).__name__, str(e)[:80])
        if why:
            drift += 1
            if drift <= 3:
                print("SPEC-DRIFT property=%s the printer differs from Serializer.tla for %s: %s" % (prop, json.dumps(cs["input"]), why), flush=True)
    rep.cov["printer_conformance"] = {"lists_enumerated_by_tlc": len(cases), "replays": len(cases), "spec_drift": drift}
    rep.cov["traces_validated_against_impl"] = rep.cov.get("traces_validated_against_impl", 0) + len(cases)
    return len(cases), drift
