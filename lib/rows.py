"""Projection of pacti objects onto the specification's state: integer rows with a snapping audit.

A float f denotes the exact rational Fraction(f).  Output rows are snapped to small rationals
and scaled to integers for TLC; `dev` is an exact bound on how much the snapped row's left side
minus constant can differ from the unsnapped one anywhere in the box (sum |da|*1000 + |dc|),
in the row's ORIGINAL units.  Rows that do not snap are marked ok=False (-> unjudged).
"""
from __future__ import annotations

import math
from fractions import Fraction as F

BOX = 1000
MAXDEN = 10**6          # rows whose integer image then exceeds 2*10^6 are unjudged anyway
INT_MAX = 2**31 - 1


def snap_num(f, rel):
    x = F(f)
    if x.denominator <= 2**20:
        return x, F(0), True  # small dyadic (every generated input is): exact, nothing to snap
    s = x.limit_denominator(MAXDEN)
    ok = abs(s - x) <= rel * max(1, abs(x))
    return s, abs(s - x), ok


def snap_term(t):
    """PolyhedralTerm -> (row dict {co,c,k}, exact-info dict)."""
    co, dev, ok = {}, F(0), True
    if not all(math.isfinite(v) for v in list(t.variables.values()) + [t.constant]):
        return {"co": {}, "c": 0, "k": 1}, {"ok": False, "dev": F(0), "exact": None, "eqok": False}
    for k, v in t.variables.items():
        s, d, o = snap_num(v, F(1, 10**12))
        ok &= o
        dev += d * BOX
        if s != 0:
            co[str(k)] = s
    c, d, o = snap_num(t.constant, F(1, 10**9))
    ok &= o
    dev += d
    den = 1
    for v in list(co.values()) + [c]:
        den = den * v.denominator // math.gcd(den, v.denominator)
    row = {"co": {k: int(v * den) for k, v in sorted(co.items())}, "c": int(c * den), "k": den}
    mag = max([abs(x) for x in row["co"].values()] + [abs(row["c"]), den])
    eqok = ok and mag <= INT_MAX          # usable for comparison of rows (no arithmetic)
    if mag > 2 * 10**6:
        ok = False
    exact = ({str(k): F(v) for k, v in t.variables.items()}, F(t.constant))
    return row, {"ok": ok, "dev": dev, "exact": exact, "eqok": eqok}


def rows_of(tl):
    """TermList -> (list of rows, list of infos)."""
    rs, infos = [], []
    for t in tl.terms:
        r, i = snap_term(t)
        rs.append(r)
        infos.append(i)
    return rs, infos


def all_ok(infos):
    return all(i["ok"] for i in infos)


def int_row(co: dict, c: int, k: int = 1):
    return {"co": {v: int(a) for v, a in sorted(co.items()) if a != 0}, "c": int(c), "k": int(k)}


def neg_row(r):
    return {"co": {v: -a for v, a in r["co"].items()}, "c": -r["c"], "k": r["k"]}


def box_rows(names):
    out = []
    for n in names:
        out.append({"co": {n: 1}, "c": BOX, "k": 1})
        out.append({"co": {n: -1}, "c": BOX, "k": 1})
    return out


def row_vars(r):
    return {v for v, a in r["co"].items() if a != 0}


def rows_vars(rs):
    s = set()
    for r in rs:
        s |= row_vars(r)
    return s


def contract_proj(c):
    """IoContract -> spec record (interface lists as they are, rows as integers)."""
    a, ai = rows_of(c.a)
    g, gi = rows_of(c.g)
    return (
        {"inv": [str(v) for v in c.inputvars], "outv": [str(v) for v in c.outputvars], "a": a, "g": g},
        {"a": ai, "g": gi, "ok": all_ok(ai) and all_ok(gi)},
    )


def row_str(r):
    return " + ".join("%d*%s" % (a, v) for v, a in r["co"].items()) + " <= %d (k=%d)" % (r["c"], r["k"])
