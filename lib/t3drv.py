"""Conformance of tactic 3's change of variables with spec/Tactic3.tla: TLC checks Laws on every (term, context, vars_to_elim) of a
small universe, refutes the variant with the substitution ratio confused, and in generator mode prints, for every state, what
tactic 1 must be called with (the new term, the substituted context, the variables handed on); the real _tactic_3 is called on
every state with _tactic_1 replaced by a recorder, and what it hands over is compared entry for entry (key order, exact dyadic
floats).  Mismatches are SPEC-DRIFT lines."""
from __future__ import annotations

import json
import re

from tlcrun import require_clean, run_tlc, stats_of
from vcommon import die

NAMES = {0: "_", 1: "x", 2: "y", 3: "z"}


def conformance(rep, rd, prop, tier="quick"):
    for cfg, must in (("Tactic3_quick.cfg" if tier == "quick" else "Tactic3.cfg", None), ("Tactic3_wrong1.cfg", "Laws")):
        res = run_tlc("Tactic3", cfg, rd, timeout=3000, gc="parallel")
        st = stats_of(res)
        st["invariants_violated"] = res["invariant_violated"]
        if must:
            if must not in str(res["invariant_violated"]):
                die("Tactic3/%s: expected TLC to refute %s (wrong variant), got %r" % (cfg, must, res["invariant_violated"]))
            st["expected_violation"] = must
            rep.add_tlc(st)
            continue
        require_clean(res, "Tactic3/" + cfg)
        rep.add_tlc(st)
        if res["invariant_violated"]:
            print("SPEC-DRIFT property=%s design-level invariant %s violated in Tactic3.tla (%s)" % (prop, res["invariant_violated"], cfg), flush=True)
    res = run_tlc("Tactic3", "Tactic3_gen.cfg", rd, workers=1, timeout=3000)
    require_clean(res, "Tactic3_gen")
    rep.add_tlc(stats_of(res))
    cases, seen = [], set()
    for m in re.finditer(r'<<"CASE", "(.*?)">>\s*$', res["out"], re.M):
        if m.group(1) not in seen:
            seen.add(m.group(1))
            cases.append(json.loads(m.group(1).encode().decode("unicode_escape")))
    if len(cases) < 9000:
        die("Tactic3.tla emitted only %d states" % len(cases))

    from pacti.iocontract import Var
    from pacti.terms.polyhedra import PolyhedralTerm, PolyhedralTermList

    def term(t):
        return PolyhedralTerm({Var(NAMES[k]): c / t["den"] for k, c in zip(t["ks"], t["cf"])}, t["c"] / t["den"])

    def shape(t):
        return {"ks": [v.name for v in t.variables], "cf": [float(c) for c in t.variables.values()], "c": float(t.constant)}

    def want(t):
        return {"ks": [NAMES[k] for k in t["ks"]], "cf": [c / t["den"] for c in t["cf"]], "c": t["c"] / t["den"]}

    seen_call = {}

    def recorder(new_term, new_context, new_elims, refine):
        seen_call["args"] = (shape(new_term), [shape(t) for t in new_context.terms], [v.name for v in new_elims], bool(refine))
        return None, 1

    orig = PolyhedralTermList.__dict__["_tactic_1"]
    PolyhedralTermList._tactic_1 = staticmethod(recorder)
    drift = 0
    try:
        for k, cs in enumerate(cases):
            t, ctx = term(cs["term"]), PolyhedralTermList([term(r) for r in cs["ctx"]])
            before = (shape(t), [shape(r) for r in ctx.terms])
            elim = [Var(NAMES[v]) for v in cs["elim"]]
            refine = k % 2 == 0
            seen_call.clear()
            why = None
            try:
                out = PolyhedralTermList._tactic_3(t, ctx, list(elim), refine)
                if "args" not in seen_call:
                    why = "tactic 1 was not called"
                else:
                    g = seen_call["args"]
                    w = (want(cs["nt"]), [want(r) for r in cs["nc"]], [NAMES[v] for v in cs["ne"]], refine)
                    for what, a, b in zip(("new term", "new context", "variables handed on", "direction"), g, w):
                        if a != b:
                            why = "%s handed to tactic 1 is %s, the specification gives %s" % (what, a, b)
                            break
                    if why is None and (out[0] is not None):
                        why = "tactic 3 returned %s although tactic 1 declined" % (out[0],)
                if why is None and before != (shape(t), [shape(r) for r in ctx.terms]):
                    why = "tactic 3 changed its arguments"
            except Exception as e:  # noqa: BLE001
                why = "raised %s: %s" % (type(e).__name__, str(e)[:80])
            if why:
                drift += 1
                if drift <= 3:
                    print("SPEC-DRIFT property=%s tactic 3 differs from Tactic3.tla for term=%s context=%s eliminate=%s: %s" %
                          (prop, json.dumps(cs["term"]), json.dumps(cs["ctx"]), cs["elim"], why), flush=True)
    finally:
        PolyhedralTermList._tactic_1 = orig
    rep.cov["tactic3_conformance"] = {"states_enumerated_by_tlc": len(cases), "replays": len(cases), "spec_drift": drift}
    rep.cov["traces_validated_against_impl"] = rep.cov.get("traces_validated_against_impl", 0) + len(cases)
    return len(cases), drift
