"""Algorithm-level conformance (drift tier) of refines / is_empty / simplify with spec/LPAlgos.tla.

An out-of-tree wrapper around the `linprog` name used by pacti.terms.polyhedra.polyhedra records
every LP the library solves; inputs are axis-parallel rows with integer bounds, so the model's
environment can compute the true answer.  A recorded answer is mapped to model units (1/K) as
round(fun*K) plus the SIGN of its round-off, which is what the model's Eps stands for."""
from __future__ import annotations

import json
import os

import family
import gen
from tlcrun import parse_verdicts, run_tlc, stats_of, require_clean
from vcommon import die

K = 4
VARS = ["x", "y", "z"]


class Recorder:
    def __init__(self):
        self.calls = []

    def install(self):
        import pacti.terms.polyhedra.polyhedra as pp

        self.pp, self.orig = pp, pp.linprog

        def wrapped(c, A_ub=None, b_ub=None, bounds=None, **kw):
            res = self.orig(c=c, A_ub=A_ub, b_ub=b_ub, bounds=bounds, **kw)
            import numpy as np

            cv = np.array(c, dtype=float).reshape(-1)
            nz = [j for j, x in enumerate(cv) if x != 0]
            am = np.array(A_ub) if A_ub is not None else np.zeros((0, 0))
            self.calls.append({"c": cv.tolist(), "n": int(am.shape[0]) if am.ndim >= 1 else 0, "st": int(res["status"]),
                               "fun": float(res["fun"]) if res["status"] == 0 and res["fun"] is not None else 0.0, "nz": nz})
            return res

        pp.linprog = wrapped

    def remove(self):
        self.pp.linprog = self.orig


def to_model_rows(raws):
    out = []
    for co, c in raws:
        (v, a), = co.items()
        out.append({"v": v, "s": 1 if a > 0 else -1, "c": int(c) * K})
    return out


def gen_case(rng, i):
    nv = rng.choice([1, 2, 2, 3])
    vs = VARS[:nv]

    def rows(n):
        return [({rng.choice(vs): rng.choice([1, -1])}, rng.choice([-2, -1, 0, 1, 2])) for _ in range(n)]

    alg = ["refines", "refines", "reduce", "is_empty", "optimize"][i % 5]
    L = rows(rng.randint(0 if alg != "reduce" else 1, 2))
    if alg == "optimize":
        return {"alg": alg, "L": L, "R": [({rng.choice(vs): rng.choice([1, -1])}, 0)]}
    if alg == "refines" and i % 8 < 2 and L:
        R = [rng.choice(L) for _ in range(rng.randint(1, 2))]      # sub-list / reflexive
    else:
        R = rows(rng.randint(0, 2)) if alg != "is_empty" else []
    return {"alg": alg, "L": L, "R": R}


def run_case(case):
    from pacti.terms.polyhedra import PolyhedralTermList

    rec = Recorder()
    L, Rr = gen.mk_list(case["L"]), gen.mk_list(case["R"])
    # variable order of the LP columns, as termlist_to_polytope builds it
    rec.install()
    try:
        kept = []
        try:
            if case["alg"] == "refines":
                ans = "true" if L.refines(Rr) else "false"
            elif case["alg"] == "is_empty":
                ans = "true" if L.is_empty() else "false"
            elif case["alg"] == "optimize":
                from pacti.iocontract import Var

                (v, a), = case["R"][0][0].items()
                out = L.optimize({Var(v): a}, maximize=True)
                ans = "none" if out is None else "value"
            else:
                out = L.simplify(Rr)
                ans = "returned"
                kept = [({str(k): v for k, v in t.variables.items()}, t.constant) for t in out.terms]
        except ValueError:
            ans = "ValueError"
    finally:
        rec.remove()
    if case["alg"] == "reduce":
        # simplify first removes terms syntactically present in the context (self - context): mirror it on the model input
        Lm = [r for r in case["L"] if r not in case["R"]]
    else:
        Lm = case["L"]
    # column order used by the library
    if case["alg"] == "reduce":
        order = list(dict.fromkeys([v for co, _ in Lm + case["R"] for v in co]))
    elif case["alg"] == "refines":
        order = list(dict.fromkeys([v for co, _ in case["L"] + case["R"] for v in co]))
    elif case["alg"] == "optimize":
        order = list(dict.fromkeys([v for co, _ in case["L"] + case["R"] for v in co]))
    else:
        order = list(dict.fromkeys([v for co, _ in case["L"] for v in co]))
    calls = []
    for c in rec.calls:
        if not c["nz"]:
            calls.append({"kind": "feas", "v": "x", "s": 1, "n": c["n"], "st": c["st"], "fun": 0})
        else:
            j = c["nz"][0]
            s = 1 if -c["c"][j] > 0 else -1           # linprog minimises c = -objective
            f = c["fun"] * K
            r = round(f)
            dev = f - r
            fun = int(r) + (1 if dev > 0 else (-1 if dev < 0 else 0))
            calls.append({"kind": "max", "v": order[j] if j < len(order) else "?", "s": s, "n": c["n"], "st": c["st"], "fun": fun if c["st"] == 0 else 0})
    return {"id": case["id"], "alg": case["alg"], "L": to_model_rows(Lm), "R": to_model_rows(case["R"]), "calls": calls, "ans": ans,
            "kept": to_model_rows(kept) if kept else []}


def conformance(rep, rd, prop, algs, n, sd):
    """Design-level run + conformance of n recorded runs; returns (n_traces, n_drift). Drift never fails the check."""
    res = run_tlc("LPAlgos", "LPAlgos_quick.cfg" if rep.tier == "quick" else "LPAlgos.cfg", rd, timeout=1800, gc="parallel")
    require_clean(res, "LPAlgos")
    st = stats_of(res)
    st["invariants_violated"] = res["invariant_violated"]
    rep.add_tlc(st)
    if res["invariant_violated"]:
        print("SPEC-DRIFT property=%s design-level invariant %s violated in LPAlgos.tla" % (prop, res["invariant_violated"]), flush=True)
    cases = []
    i = 0
    while len(cases) < n:
        c = gen_case(family.rng_for(sd, "LPAlgos", i), i)
        i += 1
        if c["alg"] in algs:
            c["id"] = len(cases) + 1
            cases.append(c)
    traces = family.pmap(run_case, cases, chunksize=8)
    path = os.path.join(rd, "lpalgos.ndjson")
    with open(path, "w") as f:
        for t in traces:
            f.write(json.dumps(t) + "\n")
    res = run_tlc("TraceLPAlgos", "TraceLPAlgos.cfg", rd, env={"TRACE_FILE": path}, timeout=1800)
    if res["timed_out"] or res["error"] or res["rc"] != 0:
        die("TraceLPAlgos failed rc=%s\n%s" % (res["rc"], "\n".join(res["out"].splitlines()[-25:])))
    rep.add_tlc(stats_of(res))
    v = parse_verdicts(res["out"])
    drift = 0
    for t in traces:
        got = v.get(t["id"])
        okv = bool(got) and got[0][2] == "ok"
        if not okv:
            drift += 1
            if drift <= 3:
                print("SPEC-DRIFT property=%s recorded %s run is not a behaviour of LPAlgos.tla: %s" % (prop, t["alg"], json.dumps(t)[:500]), flush=True)
    os.remove(path)
    rep.cov["algorithm_conformance"] = {"recorded_runs": len(traces), "spec_drift": drift, "algorithms": sorted(algs)}
    rep.cov["traces_validated_against_impl"] += len(traces)
    return len(traces), drift
