"""Algorithm-level conformance (drift tier) of the elimination dispatcher with spec/Tactics.tla:
an out-of-tree wrapper records, for every _transform call, the order of tactic attempts per term
and their outcome class, and the statistics the API returns."""
from __future__ import annotations

import json
import os

import family
from tlcrun import parse_verdicts, run_tlc, stats_of, require_clean
from vcommon import die


class Recorder:
    def __init__(self):
        self.runs = []
        self.cur = None

    def install(self):
        import pacti.terms.polyhedra.polyhedra as pp

        self.pp = pp
        T = pp.PolyhedralTermList
        self.orig_tactics = dict(T.TACTICS)
        self.orig_tt = T._transform_term
        self.orig_tr = T._transform
        rec = self

        def wrap_tactic(num, fn):
            def w(term, context, vars_to_elim, refine):
                try:
                    out = fn(term, context, vars_to_elim, refine)
                except ValueError:
                    rec._attempt(num, "ve")
                    raise
                except Exception as e:  # noqa: BLE001
                    rec._attempt(num, "exc:" + type(e).__name__)
                    raise
                rec._attempt(num, "none" if out[0] is None else "ok")
                return out
            return w

        for num, fn in self.orig_tactics.items():
            T.TACTICS[num] = wrap_tactic(num, fn)
        orig_tt = self.orig_tt

        def tt(term, context, vars_to_elim, refine, tactics_order=None):
            if rec.cur is not None:
                rec.cur["_term"] += 1
            return orig_tt(term, context, vars_to_elim, refine, tactics_order)

        T._transform_term = staticmethod(tt)
        orig_tr = self.orig_tr

        def tr(self_, context, vars_to_elim, refine, simplify, tactics_order=None):
            from pacti.utils.lists import list_intersection

            flags = [bool(list_intersection(t.vars, vars_to_elim)) for t in self_.terms]
            rec.cur = {"refine": bool(refine), "hasElim": flags, "order": list(tactics_order if tactics_order is not None else pp.TACTICS_ORDER),
                       "attempts": [], "_term": 0, "_idx": [j + 1 for j, f in enumerate(flags) if f]}
            try:
                out = orig_tr(self_, context, vars_to_elim, refine, simplify, tactics_order)
                rec.cur["stat"] = [int(s[0]) for s in out[1]]
                rec.cur["exc"] = "none"
                return out
            except Exception as e:  # noqa: BLE001
                rec.cur["stat"] = []
                rec.cur["exc"] = type(e).__name__
                raise
            finally:
                rec.runs.append(rec.cur)
                rec.cur = None

        T._transform = tr

    def _attempt(self, num, outcome):
        if self.cur is None:
            return
        k = self.cur["_term"]
        term = self.cur["_idx"][k - 1] if 0 < k <= len(self.cur["_idx"]) else 0
        self.cur["attempts"].append({"term": term, "tactic": int(num), "outcome": outcome})

    def remove(self):
        T = self.pp.PolyhedralTermList
        T.TACTICS.clear()
        T.TACTICS.update(self.orig_tactics)
        T._transform_term = staticmethod(self.orig_tt)
        T._transform = self.orig_tr


def run_case(case):
    """case: a C04 case; returns the recorded dispatcher runs of all its configurations."""
    import gen
    from pacti.iocontract import Var
    from props import c04

    rec = Recorder()
    rec.install()
    try:
        S_raw, ctx_raw = c04.clean(case["S"]), c04.clean(case["ctx"])
        for op, order, simp in case["cfgs"]:
            tl, ctx = gen.mk_list(S_raw), gen.mk_list(ctx_raw)
            try:
                fn = tl.elim_vars_by_refining if op == "refine" else tl.elim_vars_by_relaxing
                fn(ctx, [Var(v) for v in case["elim"]], simplify=simp, tactics_order=list(order))
            except Exception:  # noqa: BLE001
                pass
    finally:
        rec.remove()
    out = []
    for r in rec.runs:
        if len(r["hasElim"]) <= 5 and r["exc"] == "none":
            out.append({k: v for k, v in r.items() if not k.startswith("_")})
    return out


def conformance(rep, rd, prop, cases):
    res = run_tlc("Tactics", "Tactics.cfg", rd, timeout=1800, gc="parallel")
    require_clean(res, "Tactics")
    st = stats_of(res)
    st["invariants_violated"] = res["invariant_violated"]
    rep.add_tlc(st)
    if res["invariant_violated"]:
        print("SPEC-DRIFT property=%s design-level invariant %s violated in Tactics.tla" % (prop, res["invariant_violated"]), flush=True)
    runs = []
    for rs in family.pmap(run_case, cases, chunksize=4):
        runs += rs
    for j, r in enumerate(runs):
        r["id"] = j + 1
    path = os.path.join(rd, "tactics.ndjson")
    with open(path, "w") as f:
        for r in runs:
            f.write(json.dumps(r) + "\n")
    res = run_tlc("TraceTactics", "TraceTactics.cfg", rd, env={"TRACE_FILE": path}, timeout=1800)
    if res["timed_out"] or res["error"] or res["rc"] != 0:
        die("TraceTactics failed rc=%s\n%s" % (res["rc"], "\n".join(res["out"].splitlines()[-25:])))
    rep.add_tlc(stats_of(res))
    v = parse_verdicts(res["out"])
    drift = 0
    for r in runs:
        got = v.get(r["id"])
        if not (got and got[0][2] == "ok"):
            drift += 1
            if drift <= 3:
                print("SPEC-DRIFT property=%s recorded dispatcher run is not a behaviour of Tactics.tla: %s" % (prop, json.dumps(r)[:400]), flush=True)
    os.remove(path)
    rep.cov["dispatcher_conformance"] = {"recorded_runs": len(runs), "spec_drift": drift}
    return len(runs), drift
