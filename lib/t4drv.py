"""Design-level check and conformance of tactic 4 (spec/Tactic4.tla).

R1  Tactic4Check.tla: TLC evaluates the transcription on EVERY (term, context) of a small universe and checks the exact
    refinement certificate and the absence of eliminated variables; two more configurations switch the two defects of the
    pinned tree back on and must end with a refuting point, two vacuity configurations must find the tactic succeeding
    directly and through its recursion.
R2  an out-of-tree wrapper records every call of the real PolyhedralTermList._tactic_4 (top level and recursive, with the
    accumulated no_vars); TraceTactic4.tla recomputes each call and compares outcome and returned term exactly.
Mismatches are SPEC-DRIFT lines (the transcription no longer describes the code); property violations are decided by the
certificate-based verdicts of the C04 check itself.
"""
from __future__ import annotations

import json
import os
from fractions import Fraction as F
from math import gcd

import family
from tlcrun import parse_verdicts, require_clean, run_tlc, stats_of
from vcommon import die

NAMES = ["v1", "v2", "v3", "v4", "v5", "v6"]
LIMIT = 300


class Skip(Exception):
    pass


def _triple(term, ren):
    """PolyhedralTerm -> {'co': {v1..v6: int}, 'c': int, 'den': int} as exact rationals (floats snapped to small fractions)"""
    vals = {}
    for v, a in term.variables.items():
        x = F(float(a)).limit_denominator(10**6)
        if abs(x - F(float(a))) > F(1, 10**9) * max(1, abs(x)):
            raise Skip()
        vals[ren[str(v)]] = x
    c = F(float(term.constant)).limit_denominator(10**6)
    if abs(c - F(float(term.constant))) > F(1, 10**9) * max(1, abs(c)):
        raise Skip()
    den = 1
    for x in list(vals.values()) + [c]:
        den = den * x.denominator // gcd(den, x.denominator)
    co = {n: int(vals.get(n, 0) * den) for n in NAMES}
    ci = int(c * den)
    if max([abs(x) for x in co.values()] + [abs(ci), den]) > LIMIT:
        raise Skip()
    return {"co": co, "c": ci, "den": den}


class Recorder:
    def __init__(self):
        self.calls = []

    def install(self):
        import pacti.terms.polyhedra.polyhedra as pp

        self.T = pp.PolyhedralTermList
        self.orig = self.T.__dict__["_tactic_4"]
        fn = self.orig.__func__
        rec = self

        def wrapped(term, context, vars_to_elim, refine, no_vars):
            entry = {"term": term.copy(), "ctx": [t.copy() for t in context.terms], "elim": [str(v) for v in vars_to_elim],
                     "refine": bool(refine), "novars": [str(v) for v in no_vars]}
            rec.calls.append(entry)
            try:
                out = fn(term, context, vars_to_elim, refine, no_vars)
            except ValueError:
                entry["kind"], entry["out"] = "error", None
                raise
            except Exception as e:  # noqa: BLE001
                entry["kind"], entry["out"] = "exception:" + type(e).__name__, None
                raise
            entry["kind"], entry["out"] = ("none", None) if out[0] is None else ("row", out[0].copy())
            return out

        self.T._tactic_4 = staticmethod(wrapped)

    def remove(self):
        self.T._tactic_4 = self.orig

    def events(self):
        evs = []
        for e in self.calls:
            names = sorted({str(v) for t in [e["term"]] + e["ctx"] + ([e["out"]] if e["out"] is not None else []) for v in t.variables}
                           | set(e["elim"]) | set(e["novars"]))
            if len(names) > len(NAMES) or len(e["ctx"]) > 5 or "kind" not in e:
                continue
            ren = dict(zip(names, NAMES))
            zero = {"co": {n: 0 for n in NAMES}, "c": 0, "den": 1}
            try:
                evs.append({"term": _triple(e["term"], ren), "ctx": [_triple(t, ren) for t in e["ctx"]], "elim": [ren[v] for v in e["elim"]],
                            "novars": [ren[v] for v in e["novars"]], "refine": e["refine"], "kind": e["kind"],
                            "row": _triple(e["out"], ren) if e["out"] is not None else zero})
            except Skip:
                continue
        return evs


def small_case(rng):
    """a term with one variable to eliminate, context rows chaining through further eliminated variables"""
    vs = ["a", "b", "c", "d", "e"][: rng.randint(3, 5)]
    elim = rng.sample(vs, rng.randint(1, min(3, len(vs) - 1)))
    keep = [v for v in vs if v not in elim]

    def row(must, others, nmax):
        co = {must: rng.choice([-3, -2, -1, 1, 2, 3])}
        for v in rng.sample(others, rng.randint(0, min(nmax, len(others)))):
            co[v] = rng.choice([-2, -1, 1, 2])
        return co, rng.randint(-3, 3)

    term = row(elim[0], keep, 2)
    ctx = []
    for _ in range(rng.randint(1, 4)):
        e = rng.choice(elim)
        others = [v for v in vs if v != e]
        ctx.append(row(e, rng.sample(others, min(len(others), 2)), 2))
    return {"S": [term], "ctx": ctx, "elim": elim}


def run_case(case):
    import gen
    from pacti.iocontract import Var

    rec = Recorder()
    rec.install()
    try:
        for refine in (True, False) if case.get("direct") else (True,):
            tl, ctx = gen.mk_list(case["S"]), gen.mk_list(case["ctx"])
            try:
                if case.get("direct"):
                    for t in tl.terms:
                        try:
                            rec.T.TACTICS[4](t, ctx, [Var(v) for v in case["elim"]], refine)
                        except ValueError:
                            pass
                else:
                    tl.elim_vars_by_refining(ctx, [Var(v) for v in case["elim"]], simplify=False, tactics_order=[4])
            except Exception:  # noqa: BLE001 - only the recorded calls matter here
                pass
    finally:
        rec.remove()
    return {"id": case["id"], "ev": rec.events()}


def design_level(rep, rd, prop, tier):
    out = {}
    runs = [("Tactic4Check_quick.cfg" if tier == "quick" else "Tactic4Check.cfg", None)]
    if tier != "quick":
        runs += [("Tactic4Check_mid.cfg", None), ("Tactic4Check_deep.cfg", None)]
    runs += [("Tactic4Check_pinnedD1.cfg", "NoRefutingPoint"), ("Tactic4Check_pinnedD2.cfg", "NoRefutingPoint"),
             ("Tactic4Check_vacuity1.cfg", "NeverDirect"), ("Tactic4Check_vacuity2.cfg", "NeverRecursive")]
    for cfg, must_violate in runs:
        res = run_tlc("Tactic4Check", cfg, rd, timeout=3000, gc="parallel")
        require_clean(res, "Tactic4Check/" + cfg)
        st = stats_of(res)
        st["invariants_violated"] = res["invariant_violated"]
        rep.add_tlc(st)
        out[cfg] = {"distinct_states": st.get("distinct"), "violated": res["invariant_violated"]}
        if must_violate is None and res["invariant_violated"]:
            print("SPEC-DRIFT property=%s design-level invariant %s violated in Tactic4.tla (%s)" % (prop, res["invariant_violated"], cfg), flush=True)
        if must_violate is not None and must_violate not in str(res["invariant_violated"]):
            die("Tactic4Check/%s: expected TLC to refute %s (reproduced defect / vacuity guard), got %r" % (cfg, must_violate, res["invariant_violated"]))
    return out


def conformance(rep, rd, prop, tier, c04_cases, sd):
    design = design_level(rep, rd, prop, tier)
    n_small = 400 if tier == "quick" else 6000
    cases = []
    for c in c04_cases:
        if len(c["S"]) <= 4:
            cases.append({"S": c["S"], "ctx": c["ctx"], "elim": c["elim"]})
    for i in range(n_small):
        c = small_case(family.rng_for(sd, "T4", i))
        c["direct"] = True
        cases.append(c)
    for j, c in enumerate(cases):
        c["id"] = j + 1
    cases_by_id = {c["id"]: c for c in cases}
    traces = [t for t in family.pmap(run_case, cases, chunksize=8) if t["ev"]]
    path = os.path.join(rd, "tactic4.ndjson")
    with open(path, "w") as f:
        for t in traces:
            f.write(json.dumps(t) + "\n")
    res = run_tlc("TraceTactic4", "TraceTactic4.cfg", rd, env={"TRACE_FILE": path}, timeout=1800)
    if res["timed_out"] or res["error"] or res["rc"] != 0:
        die("TraceTactic4 failed rc=%s\n%s" % (res["rc"], "\n".join(res["out"].splitlines()[-25:])))
    rep.add_tlc(stats_of(res))
    v = parse_verdicts(res["out"])
    n_calls, drift, kinds = 0, 0, {}
    for t in traces:
        got = {int(f[0]): f for f in v.get(t["id"], [])}
        for l, ev in enumerate(t["ev"], 1):
            n_calls += 1
            f = got.get(l)
            if f is None:
                die("TraceTactic4: no verdict for trace %s step %d" % (t["id"], l))
            kinds["%s:%s" % (f[2], f[3].split(":")[0])] = kinds.get("%s:%s" % (f[2], f[3].split(":")[0]), 0) + 1
            if f[2] == "violation":
                src = cases_by_id[t["id"]]
                rep.violation({"layer": "tactic-4-call", "kind": f[3]},
                              {"case": {"id": t["id"], "S": src["S"], "ctx": src["ctx"], "elim": src["elim"], "cfgs": [["refine", [4], False]]},
                               "call": ev, "verdict": [f[2], f[3]]})
            if f[2] != "ok":
                drift += 1
                if drift <= 3:
                    print("SPEC-DRIFT property=%s a recorded call of _tactic_4 does not end as Tactic4.tla says (%s): %s" % (prop, f[3], json.dumps(ev)[:500]), flush=True)
    os.remove(path)
    rep.cov["tactic4"] = {"design_level": design, "recorded_calls": n_calls, "spec_drift": drift, "verdicts": kinds}
    return n_calls, drift
