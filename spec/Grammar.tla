----------------------------- MODULE Grammar -----------------------------
(***************************************************************************)
(* C09: the arithmetic meaning of a constraint string.                     *)
(*                                                                         *)
(* A written relation is an expression tree of the documented grammar:     *)
(*   lin   ::= sum of  k*x | k | k*( lin )                                  *)
(*   side  ::= sum of  lin items | k*|lin| | k*( items and |lin| terms )    *)
(*   rel   ::= side <= side <= ... | side >= side >= ... | lin = lin        *)
(* with every constant k a multiple of 1/4 (so that all arithmetic below   *)
(* is exact in integers: a linear form carries a denominator that is a     *)
(* power of 4).  The module gives the tree its ordinary real-arithmetic    *)
(* meaning -- with a real absolute value -- at a point, and the meaning as *)
(* linear rows inside each sign region of the absolute-value bodies.       *)
(* Nothing here mirrors how the parser works (ParserIR.tla does that).     *)
(***************************************************************************)
EXTENDS Poly

Q == 4
(* ---- linear forms  [co, c, d] : (SUM co[v]*v + c) / d ------------------ *)
FC(f, v) == IF v \in DOMAIN f.co THEN f.co[v] ELSE 0
Form(co, c, d) == [co |-> co, c |-> c, d |-> d]
ScaleF(f, m) == Form([v \in DOMAIN f.co |-> f.co[v] * m], f.c * m, f.d * m)
MulF(n, f) == Form([v \in DOMAIN f.co |-> f.co[v] * n], f.c * n, f.d * Q)       \* (n/4) * f
NegF(f) == Form([v \in DOMAIN f.co |-> -f.co[v]], -f.c, f.d)
MaxI(a, b) == IF a >= b THEN a ELSE b
ToDen(f, d) == ScaleF(f, d \div f.d)                                            \* d a multiple of f.d
AddF(f, g) ==
  LET d == MaxI(f.d, g.d)  ff == ToDen(f, d)  gg == ToDen(g, d) IN
  Form([v \in DOMAIN ff.co \cup DOMAIN gg.co |-> FC(ff, v) + FC(gg, v)], ff.c + gg.c, d)
ZeroF == Form(<<>>, 0, 1)

RECURSIVE LinOf(_), SumLin(_, _)
\* tree nodes: [t |-> "num", k] | [t |-> "var", k, n] | [t |-> "paren", k, items]   (k in quarters)
LinOf(t) ==
  CASE t.t = "num" -> Form(<<>>, t.k, Q)
    [] t.t = "var" -> Form([v \in {t.n} |-> t.k], 0, Q)
    [] t.t = "paren" -> MulF(t.k, SumLin(t.items, 1))
SumLin(items, i) == IF i > Len(items) THEN ZeroF ELSE AddF(LinOf(items[i]), SumLin(items, i + 1))

(* ---- sides: a linear form plus a list of  k*|body|  terms -------------- *)
\* part nodes: lin nodes | [t |-> "abs", k, items] | [t |-> "group", k, parts]
\* normal form of a side: [lin |-> form, abs |-> Seq([k (form constant), body (form)])]
\* the coefficient of an absolute term is kept as a form with empty co:  c/d
KForm(n) == Form(<<>>, n, Q)
MulKK(n, kf) == Form(<<>>, kf.c * n, kf.d * Q)
RECURSIVE SideOf(_, _)
SideNF(lin, abs) == [lin |-> lin, abs |-> abs]
MulSide(n, s) == SideNF(MulF(n, s.lin), [j \in DOMAIN s.abs |-> [k |-> MulKK(n, s.abs[j].k), body |-> s.abs[j].body]])
AddSide(s, u) == SideNF(AddF(s.lin, u.lin), s.abs \o u.abs)
PartOf(p) ==
  CASE p.t = "abs" -> SideNF(ZeroF, <<[k |-> KForm(p.k), body |-> SumLin(p.items, 1)]>>)
    [] p.t = "group" -> MulSide(p.k, SideOf(p.parts, 1))
    [] OTHER -> SideNF(LinOf(p), <<>>)
SideOf(parts, i) == IF i > Len(parts) THEN SideNF(ZeroF, <<>>) ELSE AddSide(PartOf(parts[i]), SideOf(parts, i + 1))
NegSide(s) == SideNF(NegF(s.lin), [j \in DOMAIN s.abs |-> [k |-> NegF(s.abs[j].k), body |-> s.abs[j].body]])

(* ---- a relation as a list of links  E_i <= 0  --------------------------- *)
\* rel: [op |-> "<=" | ">=" | "=", sides |-> Seq(parts list)]
LinkExprs(rel) ==
  LET S == [i \in DOMAIN rel.sides |-> SideOf(rel.sides[i], 1)] IN
  IF rel.op = "<=" THEN [i \in 1..(Len(S) - 1) |-> AddSide(S[i], NegSide(S[i + 1]))]
  ELSE IF rel.op = ">=" THEN [i \in 1..(Len(S) - 1) |-> AddSide(S[i + 1], NegSide(S[i]))]
  ELSE <<AddSide(S[1], NegSide(S[2])), AddSide(S[2], NegSide(S[1]))>>

(* ---- meaning at a point q/dq, with a real absolute value ---------------- *)
\* value of a form at the point, as an integer over the denominator f.d * dq
FormAt(f, q, dq) == PSum(DOMAIN f.co, LAMBDA v : f.co[v] * Val(q, v)) + f.c * dq
\* sign of the side's value: bring every summand to the denominator D * dq, D = max of all dens
SideDen(s) ==
  LET dens == {s.lin.d} \cup {s.abs[j].k.d * s.abs[j].body.d : j \in DOMAIN s.abs} IN
  CHOOSE d \in dens : \A e \in dens : d >= e
SideAt(s, q, dq) ==
  LET D == SideDen(s) IN
  FormAt(s.lin, q, dq) * (D \div s.lin.d)
  + PSum(DOMAIN s.abs, LAMBDA j : s.abs[j].k.c * Abs(FormAt(s.abs[j].body, q, dq)) * (D \div (s.abs[j].k.d * s.abs[j].body.d)))
RelHoldsAt(rel, q, dq) == \A i \in DOMAIN LinkExprs(rel) : SideAt(LinkExprs(rel)[i], q, dq) <= 0

(* ---- meaning inside a sign region of the absolute-value bodies ---------- *)
\* all absolute-value bodies of the relation, link by link
RECURSIVE Bodies(_, _)
Bodies(links, i) == IF i > Len(links) THEN <<>> ELSE [j \in DOMAIN links[i].abs |-> links[i].abs[j].body] \o Bodies(links, i + 1)
\* a form as a row  form <= 0  (positive scaling is immaterial)
RowOf(f) == Row([v \in DOMAIN f.co |-> f.co[v]], -f.c, f.d)
\* region of the sign vector sg (sg[j] in {1,-1}):  sg[j]*body_j >= 0
RegionRows(bodies, sg) == [j \in DOMAIN bodies |-> RowOf(IF sg[j] = 1 THEN NegF(bodies[j]) ELSE bodies[j])]
\* link i inside the region: lin + SUM k_j * sg_j * body_j <= 0 ; `off` = number of bodies of earlier links
RECURSIVE LinkForm(_, _, _, _)
LinkForm(link, sg, off, j) ==
  IF j > Len(link.abs) THEN link.lin
  ELSE LET kb == Form([v \in DOMAIN link.abs[j].body.co |-> link.abs[j].body.co[v] * link.abs[j].k.c * sg[off + j]],
                      link.abs[j].body.c * link.abs[j].k.c * sg[off + j], link.abs[j].body.d * link.abs[j].k.d)
       IN AddF(kb, LinkForm(link, sg, off, j + 1))
RECURSIVE LinkRows(_, _, _, _)
LinkRows(links, sg, i, off) ==
  IF i > Len(links) THEN <<>>
  ELSE <<RowOf(LinkForm(links[i], sg, off, 1))>> \o LinkRows(links, sg, i + 1, off + Len(links[i].abs))
SignVectors(m) == [1..m -> {1, -1}]
SgKey(sg) == IF Len(sg) = 0 THEN "-" ELSE
  LET RECURSIVE K(_) K(j) == IF j > Len(sg) THEN "" ELSE (IF sg[j] = 1 THEN "p" ELSE "m") \o K(j + 1) IN K(1)

\* a written relation uses absolute values non-convexly at most if some absolute term occurs
\* with a negative coefficient in some link (before any cancellation: weakest reading)
HasNegativeAbs(rel) == \E i \in DOMAIN LinkExprs(rel) : \E j \in DOMAIN LinkExprs(rel)[i].abs : LinkExprs(rel)[i].abs[j].k.c < 0

(* ---- judging a parse ----------------------------------------------------- *)
\* e: [rel, outcome in {"rows","convex","syntax",other class}, rows, rows2, names, hints: [wit, regions]]
\* regions[key] = [fwd |-> Seq(hint) per link, back |-> Seq(hint) per parsed row]
ParseJudge(e) ==
  LET links == LinkExprs(e.rel)
      bodies == Bodies(links, 1)
      m == Len(bodies) IN
  IF e.outcome = "syntax"
  THEN <<"unjudged", "rejected">>      \* the statement speaks about strings the grammar accepts
  ELSE IF e.outcome = "convex" THEN (IF HasNegativeAbs(e.rel) THEN <<"ok", "convexity-error">> ELSE <<"violation", "convex-relation-rejected">>)
  ELSE IF e.outcome # "rows" THEN <<"violation", "exception:" \o e.outcome>>
  ELSE IF e.rows2 # e.rows THEN <<"violation", "parse-not-repeatable">>
  ELSE IF e.hints.wit.kind = "witness" /\ e.hints.wit.d > 0 /\ (\A v \in Rng(e.names) : v \in DOMAIN e.hints.wit.q)      \* any real point: C09 is not read inside a box
          /\ RelHoldsAt(e.rel, e.hints.wit.q, e.hints.wit.d) # AllHoldAt(e.rows, e.hints.wit.q, e.hints.wit.d)
       THEN <<"violation", "meaning-differs">>
  ELSE IF \A sg \in SignVectors(m) :
            LET key == SgKey(sg)
                reg == RegionRows(bodies, sg)
                lrows == LinkRows(links, sg, 1, 0) IN
            /\ key \in DOMAIN e.hints.regions
            /\ Len(e.hints.regions[key].fwd) = Len(lrows) /\ Len(e.hints.regions[key].back) = Len(e.rows)
            /\ \A i \in DOMAIN lrows : LET h == e.hints.regions[key].fwd[i] IN
                  h.kind = "cert" /\ NoBox(reg \o e.rows, h) /\ FarkasExact(reg \o e.rows, e.names, lrows[i], h)
            /\ \A i \in DOMAIN e.rows : LET h == e.hints.regions[key].back[i] IN
                  h.kind = "cert" /\ NoBox(reg \o lrows, h) /\ FarkasExact(reg \o lrows, e.names, e.rows[i], h)
       THEN <<"ok", "equivalent">>
  ELSE <<"unjudged", "open">>
\* a malformed string must be rejected with the syntax error
MalformedJudge(e) ==
  IF e.outcome = "syntax" THEN <<"ok", "syntax-error">>
  ELSE IF e.outcome \in {"rows", "convex"} THEN <<"violation", "malformed-accepted">>
  ELSE <<"violation", "exception:" \o e.outcome>>
=====================================================================
