SPECIFICATION Spec
CONSTANTS
  Vars = {x, y}
  Bounds <- BoundsSmall
  K = 4
  Eps = 1
  Tol = 2
  MaxRows = 2
INVARIANT Reflexive
INVARIANT RefinesSound
INVARIANT RefinesComplete
INVARIANT EmptyExact
INVARIANT ReduceSelection
INVARIANT ReduceEquivalent
INVARIANT ReduceErrorOnlyIfInfeasible
INVARIANT NoOtherError
CHECK_DEADLOCK FALSE
