---------------------------- MODULE TracePlots ----------------------------
EXTENDS Plots, Json, IOUtils
Traces == ndJsonDeserialize(IOEnv.TRACE_FILE)
VARIABLES tid, l, last
vars == <<tid, l, last>>
Init == tid \in 1..Len(Traces) /\ l = 0 /\ last = <<>>
Step == /\ l < Len(Traces[tid].ev) /\ l' = l + 1
        /\ last' = <<(<<"plot">> \o VerticesJudge(Traces[tid].ev[l + 1]))>>
        /\ UNCHANGED tid
Spec == Init /\ [][Step]_vars
Report == l > 0 => \A i \in DOMAIN last : PrintT(<<"VERDICT", Traces[tid].id, l, last[i][1], last[i][2], last[i][3]>>)
=====================================================================
