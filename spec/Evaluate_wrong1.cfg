SPECIFICATION Spec
CONSTANTS
  VarIds = {1, 2, 3}
  Coefs <- CoefSet2
  Consts = {1}
  MaxKeys = 2
  MaxTerms = 1
  Grid <- GridSet3
  ForgetCoefficient = TRUE
INVARIANT Laws
CHECK_DEADLOCK FALSE
