--------------------------- MODULE DictFaults ---------------------------
(***************************************************************************)
(* C14 (b): an abstract model of a contract dictionary in both             *)
(* representations and of every single-field fault: deletion of a field or *)
(* replacement of its value by a value of another kind.  TLC enumerates    *)
(* the fault space exhaustively and emits it; each fault is applied to     *)
(* real valid dictionaries and pushed through validate_contract_dict,      *)
(* from_dict and read_contracts_from_file.  The specification's reading of *)
(* a dictionary says what a field must be, hence every enumerated fault    *)
(* makes the dictionary ill formed and must be rejected with               *)
(* ContractFormatError or ValueError.                                      *)
(***************************************************************************)
EXTENDS Integers, Sequences, TLC, Json
Kinds == {"list", "str", "number", "dict", "null", "bool"}
Reps == {"machine", "human"}
\* path |-> kind the field must have; paths into the first clause / first element where there is one
Shape(rep) ==
  IF rep = "machine"
  THEN [ input_vars |-> "list", output_vars |-> "list", assumptions |-> "list", guarantees |-> "list",
         input_vars_0 |-> "str", output_vars_0 |-> "str",
         assumptions_0 |-> "dict", guarantees_0 |-> "dict",
         guarantees_0_constant |-> "number", guarantees_0_coefficients |-> "dict",
         assumptions_0_constant |-> "number", assumptions_0_coefficients |-> "dict",
         guarantees_0_coefficients_0 |-> "number" ]
  ELSE [ input_vars |-> "list", output_vars |-> "list", assumptions |-> "list", guarantees |-> "list",
         input_vars_0 |-> "str", output_vars_0 |-> "str", assumptions_0 |-> "str", guarantees_0 |-> "str" ]
\* file entries: [name, type, data]
EntryShape == [ name |-> "str", type |-> "str", data |-> "dict", file |-> "list", entry |-> "dict" ]
Deletable(path) == path \notin {"input_vars_0", "output_vars_0", "assumptions_0", "guarantees_0", "guarantees_0_coefficients_0", "file", "entry"}

VARIABLES rep, level, path, fault
vars == <<rep, level, path, fault>>
Init ==
  /\ rep \in Reps /\ level \in {"dict", "entry"}
  /\ path \in (IF level = "dict" THEN DOMAIN Shape(rep) ELSE DOMAIN EntryShape)
  /\ fault \in {"delete"} \cup {"to_" \o k : k \in Kinds}
  /\ (fault = "delete" => Deletable(path))
  /\ (level = "entry" /\ path = "name" => fault = "delete")   \* a name is a label: any JSON value may serve
  /\ LET want == IF level = "dict" THEN Shape(rep)[path] ELSE EntryShape[path] IN
       /\ fault # "to_" \o want
       /\ ~(want = "number" /\ fault = "to_bool")      \* JSON true/false for a number is not demanded to be rejected
Next == UNCHANGED vars
Spec == Init /\ [][Next]_vars
Emit == PrintT(<<"FAULT", ToJson([rep |-> rep, level |-> level, path |-> path, fault |-> fault])>>)

\* the demand on every entry point, over a recorded outcome class
Rejected(outcome) == outcome \in {"ContractFormatError", "ValueError"}
=====================================================================
