SPECIFICATION Spec
CONSTANTS
  VarIds = {1, 2, 3}
  CoT <- SetC
  CoR <- SetC
  ConstT = {3}
  ConstR = {2}
  MaxCtx = 2
  ElimLists <- Lists1
  SignAny = FALSE
INVARIANT Sound
CHECK_DEADLOCK FALSE
