----------------------------- MODULE Tactic4 -----------------------------
(***************************************************************************)
(* C04, design level: tactic 4 of polyhedra.py (PolyhedralTermList.        *)
(* _tactic_4 with PolyhedralTerm.isolate_variable / substitute_variable /  *)
(* multiply), transcribed statement by statement.                          *)
(*                                                                         *)
(* Tactic 4 refines ONE term that mentions exactly one variable to         *)
(* eliminate, v, by substituting for v a bound taken from a context row    *)
(* whose coefficient of v has the same sign as the term's; when that row   *)
(* mentions a second variable to eliminate, the bound is refined           *)
(* recursively with the row removed from the context.                      *)
(*                                                                         *)
(* Arithmetic: the code divides by coefficients; here every term is a      *)
(* triple [co, c, den], den > 0, standing for  SUM (co[u]/den) u <= c/den. *)
(* As an inequality the scaling is irrelevant; as an EXPRESSION (the code  *)
(* reads the result of isolate_variable as  v = SUM co[u] u - c ) it is    *)
(* not, which is why it is carried along.  All operators stay in integers. *)
(*                                                                         *)
(* What TLC checks (exhaustively over a small universe of terms and        *)
(* contexts, Tactic4Check.tla): whenever T4 returns a term R,              *)
(*   Certified   d * term = R + SUM mu_i ctx_i  with d > 0, mu_i >= 0      *)
(*               (so  ctx /\ R => term  for ALL real points), and          *)
(*   Eliminated  R mentions no variable to eliminate.                      *)
(* The switches reproduce the two defects of the pinned tree (D1, D2):     *)
(* with either of them TLC finds a term, a context and a point where       *)
(* ctx /\ R holds and the term does not.                                   *)
(* Bound to the code by TraceTactic4.tla: every recorded call of the real  *)
(* tactic must return what T4 returns, up to positive scaling.             *)
(***************************************************************************)
EXTENDS Integers, Sequences, FiniteSets, TLC
CONSTANTS V,               \* the variables (strings)
          IsolateSignBug,  \* TRUE: isolate_variable returns the constant with the wrong sign (pinned tree, D1)
          RecursionSignBug \* TRUE: the recursion bounds the isolated expression in the direction of refinement regardless of the
                           \*       sign of the term's coefficient (pinned tree, D2)

Abs(n) == IF n < 0 THEN -n ELSE n
Sgn(n) == IF n > 0 THEN 1 ELSE IF n < 0 THEN -1 ELSE 0
T(co, c, den) == [co |-> co, c |-> c, den |-> den]
TermVars(t) == {u \in V : t.co[u] # 0}

(* ---- PolyhedralTerm arithmetic ------------------------------------------ *)
\* multiply(factor) for factor in {1, -1}
Mul(t, s) == T([u \in V |-> s * t.co[u]], s * t.c, t.den)
\* isolate_variable(v) on  a v + r <= c  read as an equality:  v = SUM (-r_u / a) u - (-c / a)
Isolate(t, v) ==
  LET a == t.co[v]  s == Sgn(a)  k == IF IsolateSignBug THEN s * t.c ELSE -s * t.c IN
  T([u \in V |-> IF u = v THEN 0 ELSE -s * t.co[u]], k, Abs(a))
\* substitute_variable(v, e):  remove v, add coefficient(v) * e  (constants add on the right-hand side)
Substitute(t, v, e) ==
  LET tv == t.co[v] IN
  T([u \in V |-> (IF u = v THEN 0 ELSE e.den * t.co[u]) + tv * e.co[u]], e.den * t.c + tv * e.c, t.den * e.den)

(* ---- _tactic_4 ----------------------------------------------------------- *)
Res(kind, row) == [kind |-> kind, row |-> row]
Zero == T([u \in V |-> 0], 0, 1)
SeqWithout(s, i) == [j \in 1..(Len(s) - 1) |-> IF j < i THEN s[j] ELSE s[j + 1]]
RECURSIVE T4(_, _, _, _), TryUseful(_, _, _, _, _, _)
\* outcomes: "row" (a new term), "none" (returned None), "error" (raised ValueError)
T4(term, ctx, elim, noVars) ==
  LET conflict == elim \cap TermVars(term) IN
  IF Cardinality(conflict) # 1 THEN Res("error", Zero)
  ELSE
  LET v == CHOOSE u \in conflict : TRUE
      tv == term.co[v]
      usable(i) == TermVars(ctx[i]) \cap noVars = {} /\ ctx[i].co[v] # 0 /\ ctx[i].co[v] * tv > 0
      goal == {i \in DOMAIN ctx : usable(i) /\ Cardinality(TermVars(ctx[i]) \cap elim) = 1}
      useful == {i \in DOMAIN ctx : usable(i) /\ Cardinality(TermVars(ctx[i]) \cap elim) = 2}
  IN IF goal = {} /\ useful = {} THEN Res("error", Zero)
     ELSE IF goal # {}
          THEN LET g == CHOOSE i \in goal : \A j \in goal : i <= j IN Res("row", Substitute(term, v, Isolate(ctx[g], v)))
          ELSE TryUseful(term, ctx, elim, noVars, v, 1)
\* the loop over useful_context, in list order, starting at context position `from`
TryUseful(term, ctx, elim, noVars, v, from) ==
  LET tv == term.co[v]
      usable(i) == TermVars(ctx[i]) \cap noVars = {} /\ ctx[i].co[v] # 0 /\ ctx[i].co[v] * tv > 0
      rest == {i \in DOMAIN ctx : i >= from /\ usable(i) /\ Cardinality(TermVars(ctx[i]) \cap elim) = 2}
  IN IF rest = {} THEN Res("none", Zero)
     ELSE LET i == CHOOSE j \in rest : \A m \in rest : j <= m
              sign == IF RecursionSignBug THEN 1 ELSE Sgn(tv)
              newTerm == Mul(Isolate(ctx[i], v), sign)
              r == T4(newTerm, SeqWithout(ctx, i), elim, noVars \cup {v})
          IN IF r.kind = "row" THEN Res("row", Substitute(term, v, Mul(r.row, sign)))
             ELSE TryUseful(term, ctx, elim, noVars, v, i + 1)
Tactic4(term, ctx, elim) == T4(term, ctx, elim, {})

(* ---- what a refinement must satisfy -------------------------------------- *)
Eliminated(R, elim) == TermVars(R) \cap elim = {}
\* value of the left side at an integer point, and the inequality itself (scaling is positive, so den plays no role)
Lhs(t, p) == LET RECURSIVE S(_)
                 S(W) == IF W = {} THEN 0 ELSE LET u == CHOOSE w \in W : TRUE IN t.co[u] * p[u] + S(W \ {u})
             IN S(V)
HoldsAtPoint(t, p) == Lhs(t, p) <= t.c
\* a point refuting  ctx /\ R => term
Refutes(p, term, ctx, R) == (\A i \in DOMAIN ctx : HoldsAtPoint(ctx[i], p)) /\ HoldsAtPoint(R, p) /\ ~HoldsAtPoint(term, p)
\* exact certificate with multipliers from a small range:  d * term = R + SUM mu_i ctx_i
SameRow(a, b) == a.c = b.c /\ \A u \in V : a.co[u] = b.co[u]
=====================================================================
