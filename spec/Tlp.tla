-------------------------------- MODULE Tlp --------------------------------
(***************************************************************************)
(* Tactic 5 of polyhedra.py: the ROW SELECTION _get_tlp_context,           *)
(* transcribed around its ONE call of the LP solver, whose answer (status  *)
(* and the set of ACTIVE context rows, slack 0) is a parameter:            *)
(*   status 3 or any status but 0: ValueError;                             *)
(*   fewer active rows than variables to eliminate: ValueError;            *)
(*   the first active rows, in list order, that mention a variable to      *)
(*   eliminate are taken, one per variable; too few: ValueError;           *)
(*   the term's coefficients on those variables (negated when relaxing)    *)
(*   must be a NON-NEGATIVE combination of the chosen rows' coefficients   *)
(*   (row_matrix^T mu = target): singular system or a negative multiplier: *)
(*   ValueError.                                                           *)
(* The active set is whatever the solver reports -- at a degenerate        *)
(* optimum more rows than variables, in any combination -- so TLC tries    *)
(* EVERY subset of the context as active set.                              *)
(*                                                                         *)
(* SOUNDNESS (TLC, every state): whenever rows are returned, the system    *)
(* of ContextReduction.tla is solvable and its multipliers are >= 0 when   *)
(* refining, <= 0 when relaxing.  Two wrong variants are refuted: the      *)
(* matrix not transposed (seeded C01c/..) and the multiplier check skipped *)
(* for a single variable (seeded C04g/2) -- the latter is the pinned       *)
(* tree's behaviour at degenerate optima.                                  *)
(* Generator mode: every state with the selection; lib/tlpdrv.py calls the *)
(* real _get_tlp_context on all of them with the solver replaced by one    *)
(* that reports the generated status and active set.                       *)
(***************************************************************************)
EXTENDS Integers, Sequences, FiniteSets, TLC, Json
CONSTANTS VarIds, CoT, CoR, ConstT, ConstR, MaxCtx, ElimLists,
          NoTranspose,     \* wrong variant: row_matrix mu = target instead of row_matrix^T mu = target
          SkipForOne       \* wrong variant: no multiplier check when one variable is eliminated
SetA == {-2, 0, 1}
SetB == {-1, 0, 2}
Lists1 == {<<1>>, <<1, 2>>, <<2, 1>>, <<1, 3>>}
Rng(s) == {s[i] : i \in DOMAIN s}
Form(co, c) == [co |-> co, c |-> c]
TermVars(t) == {v \in VarIds : t.co[v] # 0}
Forbidden(term, elim) == SelectSeq(elim, LAMBDA v : v \in TermVars(term))

Det(F, R) == IF Len(F) = 1 THEN R[1].co[F[1]] ELSE R[1].co[F[1]] * R[2].co[F[2]] - R[1].co[F[2]] * R[2].co[F[1]]
\* numerators of the solution of  M mu = p  over Det, for M = A^T (A[i][j] = coefficient of row i on variable j) or M = A
Mu(F, R, p, i, transposed) ==
  IF Len(F) = 1 THEN p[1]
  ELSE LET a11 == R[1].co[F[1]]  a12 == R[1].co[F[2]]  a21 == R[2].co[F[1]]  a22 == R[2].co[F[2]] IN
       IF transposed THEN (IF i = 1 THEN p[1] * a22 - p[2] * a21 ELSE a11 * p[2] - a12 * p[1])      \* A^T mu = p
       ELSE (IF i = 1 THEN p[1] * a22 - a12 * p[2] ELSE a11 * p[2] - a21 * p[1])                    \* A mu = p
Mult(t, F, R, i) == Mu(F, R, [j \in DOMAIN F |-> t.co[F[j]]], i, TRUE)                               \* ContextReduction!Mult

Select(term, ctx, elim, refine, status, active) ==
  LET fv == Forbidden(term, elim)  n == Len(fv)
      idx == SelectSeq([k \in 1..Len(ctx) |-> k], LAMBDA k : k \in active)
      useful == SelectSeq(idx, LAMBDA k : TermVars(ctx[k]) \cap Rng(fv) # {})
      err == [kind |-> "ValueError", rows |-> <<>>] IN
  IF status # 0 THEN err
  ELSE IF Len(idx) < n THEN err
  ELSE IF Len(useful) < n THEN err
  ELSE LET rows == SubSeq(useful, 1, n)
           R == [m \in 1..n |-> ctx[rows[m]]]
           p == [j \in 1..n |-> IF refine THEN term.co[fv[j]] ELSE -term.co[fv[j]]]
           d == Det(fv, R) IN
       IF d = 0 THEN err
       ELSE IF (n = 1 /\ SkipForOne) THEN [kind |-> "rows", rows |-> rows]
       ELSE IF \E i \in 1..n : Mu(fv, R, p, i, ~NoTranspose) * d < 0 THEN err
       ELSE [kind |-> "rows", rows |-> rows]

VARIABLES term, ctx, elim, refine, status, active
vars == <<term, ctx, elim, refine, status, active>>
Forms(S, C) == {Form(co, c) : co \in [VarIds -> S], c \in C}
Init == /\ term \in Forms(CoT, ConstT) /\ ctx \in UNION {[1..n -> Forms(CoR, ConstR)] : n \in 0..MaxCtx}
        /\ elim \in ElimLists /\ refine \in BOOLEAN /\ status \in {0, 2, 3}
        /\ active \in SUBSET (1..Len(ctx))
        /\ (status # 0 => active = {})
        /\ Forbidden(term, elim) # <<>>
Next == UNCHANGED vars
Spec == Init /\ [][Next]_vars

Sound ==
  LET s == Select(term, ctx, elim, refine, status, active) IN
  s.kind = "rows" =>
    LET F == Forbidden(term, elim)  R == [m \in DOMAIN s.rows |-> ctx[s.rows[m]]]  d == Det(F, R) IN
    /\ Len(s.rows) = Len(F) /\ d # 0
    /\ \A i \in DOMAIN F : IF refine THEN Mult(term, F, R, i) * d >= 0 ELSE Mult(term, F, R, i) * d <= 0
FoundTwo == ~(Select(term, ctx, elim, refine, status, active).kind = "rows" /\ Len(Forbidden(term, elim)) = 2)      \* vacuity guard: must be refuted

\* one state in six, picked by an arithmetic mix of its fields (the generator would otherwise print 807 300 states)
Mix == term.co[1] + 3 * term.co[2] + 5 * term.co[3] + 7 * Len(ctx) + 11 * Cardinality(active) + (IF refine THEN 13 ELSE 0) + status + Len(elim)
       + (IF Len(ctx) > 0 THEN 17 * ctx[1].co[1] + 19 * ctx[1].co[2] + 23 * ctx[1].co[3] ELSE 0)
       + (IF Len(ctx) > 1 THEN 29 * ctx[2].co[1] + 31 * ctx[2].co[2] + 37 * ctx[2].co[3] ELSE 0)
Emit == (Mix % 6 = 0) => PrintT(<<"CASE", ToJson([term |-> term, ctx |-> ctx, elim |-> elim, refine |-> refine, status |-> status,
                                  active |-> [k \in 1..Len(ctx) |-> k \in active], sel |-> Select(term, ctx, elim, refine, status, active)])>>)
=====================================================================
