SPECIFICATION Spec
CONSTANTS
  Ids = {1, 2}
  Consts <- ConstsDef
  MaxLen = 4
INVARIANT RoundTrip
INVARIANT Done
CHECK_DEADLOCK FALSE
