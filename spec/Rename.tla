----------------------------- MODULE Rename -----------------------------
(***************************************************************************)
(* Renaming, as the code does it, statement by statement:                  *)
(*   PolyhedralTerm.rename_variable      (coefficients are ADDED when the  *)
(*                                        target already occurs; a sum of  *)
(*                                        zero leaves no entry)            *)
(*   TermList.rename_variable            (term by term)                    *)
(*   IoContract.rename_variable          (the interface lists: the source  *)
(*                                        is replaced IN PLACE by a fresh  *)
(*                                        target, REMOVED when the target  *)
(*                                        is already declared on the same  *)
(*                                        side, refused when it is         *)
(*                                        declared on the other side;      *)
(*                                        nothing happens for an absent    *)
(*                                        source or equal names)           *)
(*                                                                         *)
(* A term is [ks, cf, c] as in Matrix.tla (ks = key order of the           *)
(* coefficient dictionary).  The key order after a rename is the code's:   *)
(* a target that is new to the term is appended at the end.                *)
(*                                                                         *)
(* Laws (TLC, every state of the small universe):                          *)
(*   Substitution  the renamed term holds at a valuation x exactly when    *)
(*                 the original holds at x with x[s] := x[u]               *)
(*   SourceGone    the source occurs in no renamed term                    *)
(*   Interface     the lists stay duplicate free and disjoint, the source  *)
(*                 is gone, the sets are Contracts!RenameSet, the refusal  *)
(*                 is raised exactly for an input/output clash             *)
(* Outside the model (named): the term-level function called with equal    *)
(* names (the contract-level function never does that).                    *)
(*                                                                         *)
(* In generator mode (Emit) TLC prints every state with the results; all   *)
(* of them are replayed into the real functions by lib/renamedrv.py.       *)
(***************************************************************************)
EXTENDS Integers, Sequences, FiniteSets, TLC, Json
CONSTANTS VarIds,      \* declared / mentioned variables
          Fresh,       \* one more name, new to everything
          Coefs, Consts, MaxKeys, MaxTerms, Grid,
          Mode,        \* "terms": term lists and a pair of names; "itf": interface lists and a pair of names
          AddWithoutMerge   \* wrong variant (TRUE): the target's old coefficient is overwritten instead of added to -- Substitution must refute it
CoefSet == {-1, 1, 2}
GridSet == {-1, 0, 2}

Rng(s) == {s[i] : i \in DOMAIN s}
Inj(s) == \A i, j \in DOMAIN s : i # j => s[i] # s[j]
Names == VarIds \cup {Fresh}
KeySeqs == {s \in UNION {[1..n -> VarIds] : n \in 0..MaxKeys} : Inj(s)}
Terms == UNION {{[ks |-> s, cf |-> f, c |-> k] : f \in [1..Len(s) -> Coefs \ {0}], k \in Consts} : s \in KeySeqs}
TermLists == UNION {[1..m -> Terms] : m \in 0..MaxTerms}
Coef(t, v) == IF v \in Rng(t.ks) THEN t.cf[CHOOSE i \in DOMAIN t.ks : t.ks[i] = v] ELSE 0
Idx(sq, v) == CHOOSE i \in DOMAIN sq : sq[i] = v
Without(sq, i) == SubSeq(sq, 1, i - 1) \o SubSeq(sq, i + 1, Len(sq))

\* ------------------------------------------------------------ PolyhedralTerm.rename_variable (s # u)
RenameTerm(t, s, u) ==
  IF s \notin Rng(t.ks) THEN t
  ELSE LET cs == Coef(t, s)
           \* "if target_var not in self.vars: new_term.variables[target_var] = 0" -- a new key goes to the end
           ks1 == IF u \in Rng(t.ks) THEN t.ks ELSE t.ks \o <<u>>
           cf1 == IF u \in Rng(t.ks) THEN t.cf ELSE t.cf \o <<0>>
           iu == Idx(ks1, u)
           \* "new_term.variables[target_var] += new_term.variables[source_var]"
           cf2 == [cf1 EXCEPT ![iu] = IF AddWithoutMerge THEN cs ELSE cf1[iu] + cs]
           \* "remove_variable(source_var)" -- through a copy, and the constructor keeps no zero entry
           is == Idx(ks1, s)
           ks3 == Without(ks1, is)
           cf3 == Without(cf2, is)
           keep == SelectSeq([j \in 1..Len(ks3) |-> j], LAMBDA j : cf3[j] # 0)
       IN [ks |-> [n \in 1..Len(keep) |-> ks3[keep[n]]], cf |-> [n \in 1..Len(keep) |-> cf3[keep[n]]], c |-> t.c]
RenameList(T, s, u) == [i \in 1..Len(T) |-> RenameTerm(T[i], s, u)]

\* ------------------------------------------------------------ IoContract.rename_variable, interface part
Replace(sq, s, u) == [i \in 1..Len(sq) |-> IF sq[i] = s THEN u ELSE sq[i]]
RenameItf(I, O, s, u) ==
  IF s = u THEN [exc |-> "none", inv |-> I, outv |-> O]
  ELSE IF s \in Rng(I) THEN
         IF u \in Rng(O) THEN [exc |-> "IncompatibleArgsError", inv |-> I, outv |-> O]
         ELSE IF u \notin Rng(I) THEN [exc |-> "none", inv |-> Replace(I, s, u), outv |-> O]
         ELSE [exc |-> "none", inv |-> Without(I, Idx(I, s)), outv |-> O]
  ELSE IF s \in Rng(O) THEN
         IF u \in Rng(I) THEN [exc |-> "IncompatibleArgsError", inv |-> I, outv |-> O]
         ELSE IF u \notin Rng(O) THEN [exc |-> "none", inv |-> I, outv |-> Replace(O, s, u)]
         ELSE [exc |-> "none", inv |-> I, outv |-> Without(O, Idx(O, s))]
  ELSE [exc |-> "none", inv |-> I, outv |-> O]

\* ------------------------------------------------------------ meaning
Vals == [Names -> Grid]
RECURSIVE SumTerm(_, _, _)
SumTerm(t, x, i) == IF i > Len(t.ks) THEN 0 ELSE t.cf[i] * x[t.ks[i]] + SumTerm(t, x, i + 1)
Holds(t, x) == SumTerm(t, x, 1) <= t.c
RenameSet(S, s, u) == IF s \in S THEN (S \ {s}) \cup {u} ELSE S           \* Contracts!RenameSet

VARIABLES T, I, O, s, u
vars == <<T, I, O, s, u>>
ItfPairs == {p \in KeySeqs \X KeySeqs : Rng(p[1]) \cap Rng(p[2]) = {}}
Init == /\ s \in VarIds /\ u \in Names
        /\ IF Mode = "terms" THEN T \in TermLists /\ I = <<>> /\ O = <<>> /\ s # u
                             ELSE T = <<>> /\ \E p \in ItfPairs : I = p[1] /\ O = p[2]
Next == UNCHANGED vars
Spec == Init /\ [][Next]_vars

Substitution ==
  \A i \in DOMAIN T : \A x \in Vals :
     Holds(RenameTerm(T[i], s, u), x) <=> Holds(T[i], [x EXCEPT ![s] = x[u]])
SourceGone == \A i \in DOMAIN T : s \notin Rng(RenameTerm(T[i], s, u).ks) /\ Inj(RenameTerm(T[i], s, u).ks)
                                  /\ \A n \in DOMAIN RenameTerm(T[i], s, u).cf : RenameTerm(T[i], s, u).cf[n] # 0
Untouched == \A i \in DOMAIN T : s \notin Rng(T[i].ks) => RenameTerm(T[i], s, u) = T[i]
Interface ==
  LET r == RenameItf(I, O, s, u)
      clash == s # u /\ ((s \in Rng(I) /\ u \in Rng(O)) \/ (s \in Rng(O) /\ u \in Rng(I))) IN
  /\ (r.exc # "none") <=> clash
  /\ r.exc = "none" =>
       /\ Inj(r.inv) /\ Inj(r.outv) /\ Rng(r.inv) \cap Rng(r.outv) = {}
       /\ Rng(r.inv) = (IF s = u THEN Rng(I) ELSE RenameSet(Rng(I), s, u))
       /\ Rng(r.outv) = (IF s = u THEN Rng(O) ELSE RenameSet(Rng(O), s, u))
       /\ (s # u /\ s \in Rng(I) \cup Rng(O)) => s \notin Rng(r.inv) \cup Rng(r.outv)
       /\ (s \notin Rng(I) \cup Rng(O)) => (r.inv = I /\ r.outv = O)                     \* renaming an absent variable changes nothing
Laws == Substitution /\ SourceGone /\ Untouched /\ Interface

Emit == PrintT(<<"CASE", ToJson([mode |-> Mode, t |-> T, inv |-> I, outv |-> O, s |-> s, u |-> u,
                                  rt |-> RenameList(T, s, u), ri |-> RenameItf(I, O, s, u)])>>)
=====================================================================
