SPECIFICATION Spec
CONSTANTS
  MaxLen = 1000
  NSeed = 3
  EmitLen = 14
  OpFilter <- HashOps
  NParam = 4
CONSTRAINT Emit
CHECK_DEADLOCK FALSE
