--------------------------- MODULE TraceParserIR ---------------------------
(* Conformance (drift tier): the intermediate representation that the REAL parse actions build for
   each side of a generated relation equals the IR computed by ParserIR.tla from the tree (forms
   compared as rationals, a missing coefficient as 1, absolute terms in order). *)
EXTENDS ParserIR, Json, IOUtils
Traces == ndJsonDeserialize(IOEnv.TRACE_FILE)
ToForm(j) == Form(j.co, j.c, j.d)
ATEq(at, rec) == FormEq(at.body, ToForm(rec.body)) /\ FormEq(ATCoef(at), ToForm(rec.k))
IREq(x, rec) ==
  /\ FormEq(x.tl, ToForm(rec.tl))
  /\ Len(x.atl) = Len(rec.atl)
  /\ \A j \in DOMAIN x.atl : ATEq(x.atl[j], rec.atl[j])
Conforms(e) == Len(e.sides) = Len(e.rel.sides) /\ \A m \in DOMAIN e.sides : IREq(IROfParts(e.rel.sides[m], 1), e.sides[m])
VARIABLES tid, l, last
vars == <<tid, l, last>>
Init == tid \in 1..Len(Traces) /\ l = 0 /\ last = <<>>
Step == /\ l < Len(Traces[tid].ev) /\ l' = l + 1
        /\ last' = <<(<<"ir", IF Conforms(Traces[tid].ev[l + 1]) THEN "ok" ELSE "drift", "">>)>>
        /\ UNCHANGED tid
Spec == Init /\ [][Step]_vars
Report == l > 0 => \A i \in DOMAIN last : PrintT(<<"VERDICT", Traces[tid].id, l, last[i][1], last[i][2], last[i][3]>>)
=====================================================================
