SPECIFICATION Spec
CONSTANTS
  Lo = 0
  Hi = 3
  MaxAlts = 2
INVARIANT Laws
CHECK_DEADLOCK FALSE
