----------------------------- MODULE ParserIR -----------------------------
(***************************************************************************)
(* C09, design level: the parser's intermediate representation             *)
(* (syntax/data.py: PolyhedralSyntaxTermList, ...AbsoluteTerm,             *)
(* ...AbsoluteTermList and the parse actions of syntax/grammar.py that     *)
(* build them), transcribed operator by operator, and the translation of   *)
(* an inequality into rows (serializer._leq/_geq_expression_to_..).        *)
(*                                                                         *)
(* The IR of a side is  [tl, atl]:  a linear form and a list of absolute   *)
(* terms [body, none, k] -- `none` says the coefficient is None (meaning   *)
(* 1), k is the coefficient otherwise.  Grammar.tla gives the same tree    *)
(* its real-arithmetic meaning independently; the invariants say the IR    *)
(* built by the parse actions always MEANS the written side, and that the  *)
(* rows produced by sign expansion hold exactly where the written relation *)
(* does.  Checked by TLC over a universe of small trees and a grid of      *)
(* points; bound to the real parser by TraceParserIR.tla, which compares   *)
(* the IR the real parse actions build with the IR computed here.          *)
(***************************************************************************)
EXTENDS Grammar
CONSTANT CombineNoneNone   \* what _combine_optional_floats(None, None) yields, in quarters: 8 (= 2.0, repaired) or 0 (None: pinned)

(* ---- syntax/data.py ------------------------------------------------------ *)
\* two forms denote the same linear expression (data.py compares printed representations)
FormEq(f, g) == LET d == MaxI(f.d, g.d)  ff == ToDen(f, d)  gg == ToDen(g, d) IN
                ff.c = gg.c /\ \A v \in DOMAIN ff.co \cup DOMAIN gg.co : FC(ff, v) = FC(gg, v)
AT(body, none, k) == [body |-> body, none |-> none, k |-> k]          \* k: a constant form (empty co)
OneK == KForm(Q)
ATCoef(at) == IF at.none THEN OneK ELSE at.k
ATNegate(at) == AT(at.body, FALSE, NegF(ATCoef(at)))
ATPositive(at) == at.none \/ at.k.c >= 0          \* a zero coefficient (left by terms that cancel) is not a non-convex use (D18)
AddK(k1, k2) == AddF(k1, k2)
\* _combine_optional_floats
Combine(a, b) ==
  IF a.none /\ b.none THEN (IF CombineNoneNone = 0 THEN AT(a.body, TRUE, OneK) ELSE AT(a.body, FALSE, KForm(CombineNoneNone)))
  ELSE IF a.none THEN AT(a.body, FALSE, AddK(b.k, OneK))
  ELSE IF b.none THEN AT(a.body, FALSE, AddK(a.k, OneK))
  ELSE AT(a.body, FALSE, AddK(a.k, b.k))
\* _combine_or_append
CombineOrAppend(atl, t) ==
  LET hit == \E j \in DOMAIN atl : FormEq(atl[j].body, t.body) IN
  IF hit THEN [j \in DOMAIN atl |-> IF FormEq(atl[j].body, t.body) THEN Combine(atl[j], t) ELSE atl[j]]
  ELSE Append(atl, t)
IR(tl, atl) == [tl |-> tl, atl |-> atl]
RECURSIVE FoldAppend(_, _, _)
FoldAppend(atl, ts, j) == IF j > Len(ts) THEN atl ELSE FoldAppend(CombineOrAppend(atl, ts[j]), ts, j + 1)
IRAdd(x, y) == IR(AddF(x.tl, y.tl), FoldAppend(x.atl, y.atl, 1))
IRNegate(x) == IR(NegF(x.tl), [j \in DOMAIN x.atl |-> ATNegate(x.atl[j])])
\* _parse_paren_abs_or_terms with a factor n/4
IRScale(n, x) == IR(MulF(n, x.tl), [j \in DOMAIN x.atl |-> AT(x.atl[j].body, FALSE,
                                        IF x.atl[j].none THEN KForm(n) ELSE MulKK(n, x.atl[j].k))])

(* ---- syntax/grammar.py: the IR the parse actions build for a side -------- *)
\* a signed part: the sign is folded into k by the renderer; the parse actions see |k| and negate
RECURSIVE IROfParts(_, _)
AbsK(n) == IF n < 0 THEN -n ELSE n
IROfPart(p) ==
  CASE p.t = "abs" ->
         LET at == AT(SumLin(p.items, 1), AbsK(p.k) = Q, KForm(AbsK(p.k))) IN
         IR(ZeroF, <<IF p.k < 0 THEN ATNegate(at) ELSE at>>)
    [] p.t = "group" ->
         LET inner == IROfParts(p.parts, 1)
             sc == IF AbsK(p.k) = Q THEN inner ELSE IRScale(AbsK(p.k), inner) IN
         IF p.k < 0 THEN IRNegate(sc) ELSE sc
    [] OTHER -> IR(LinOf(p), <<>>)
IROfParts(parts, j) == IF j > Len(parts) THEN IR(ZeroF, <<>>) ELSE IRAdd(IROfPart(parts[j]), IROfParts(parts, j + 1))
\* note: the parse actions fold left to right; addition of forms is commutative and _combine_or_append
\* keeps the first occurrence's position, so the IR is compared up to the order of the absolute terms

(* ---- meaning of an IR at a point, and of the rows it expands to ---------- *)
IRSide(x) == SideNF(x.tl, [j \in DOMAIN x.atl |-> [k |-> ATCoef(x.atl[j]), body |-> x.atl[j].body]])
IRAt(x, q, dq) == SideAt(IRSide(x), q, dq)
\* same value as the side it was built from (both scaled to a common denominator)
SameValueAt(x, s, q, dq) ==
  LET a == IRSide(x)  da == SideDen(a)  ds == SideDen(s) IN
  SideAt(a, q, dq) * ds = SideAt(s, q, dq) * da

\* serializer: a <= b  ->  (a + (-b)) , convexity check, sign expansion
LinkIR(rel, j) ==
  LET S == [m \in DOMAIN rel.sides |-> IROfParts(rel.sides[m], 1)] IN
  IF rel.op = "<=" THEN IRAdd(S[j], IRNegate(S[j + 1])) ELSE IRAdd(IRNegate(S[j]), S[j + 1])
ConvexOK(x) == \A j \in DOMAIN x.atl : ATPositive(x.atl[j])
ExpandRows(x) ==
  {RowOf(LinkForm(IRSide(x), sg, 0, 1)) : sg \in SignVectors(Len(x.atl))}
RowsHoldAt(rows, q, dq) == \A r \in rows : HoldsAt(r, q, dq)
=====================================================================
