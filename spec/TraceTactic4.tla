--------------------------- MODULE TraceTactic4 ---------------------------
(* Conformance of the real PolyhedralTermList._tactic_4 with Tactic4.tla: every recorded call -- top level or recursive,
   with the term, the context in list order, the variables to eliminate and the no_vars accumulated by the recursion --
   must end the way T4 ends, and a returned term must be the one T4 computes (as exact rationals: both sides carry their
   positive denominators).  Variables are renamed to v1..v6 by the recorder.  One verdict per call. *)
EXTENDS Tactic4, Json, IOUtils
Traces == ndJsonDeserialize(IOEnv.TRACE_FILE)
VARIABLES tid, l, last
tvars == <<tid, l, last>>
\* the same rational term:  a.co/a.den = b.co/b.den  and  a.c/a.den = b.c/b.den
SameTerm(a, b) == a.c * b.den = b.c * a.den /\ \A u \in V : a.co[u] * b.den = b.co[u] * a.den
\* a recorded result refuted outright: an integer point (over the variables that occur, others 0) where the context and the
\* returned term hold and the original term does not -- a violation of C04 whatever the transcription says
Used(e) == {u \in V : e.term.co[u] # 0 \/ e.row.co[u] # 0 \/ \E i \in DOMAIN e.ctx : e.ctx[i].co[u] # 0}
RECURSIVE LhsOn(_, _, _)
LhsOn(t, p, W) == IF W = {} THEN 0 ELSE LET u == CHOOSE w \in W : TRUE IN t.co[u] * p[u] + LhsOn(t, p, W \ {u})
HoldsOn(t, p, W) == LhsOn(t, p, W) <= t.c
Refuted(e) ==
  LET W == Used(e) IN
  Cardinality(W) <= 4 /\ \E p \in [W -> -3..3] :
     (\A i \in DOMAIN e.ctx : HoldsOn(e.ctx[i], p, W)) /\ HoldsOn(e.row, p, W) /\ ~HoldsOn(e.term, p, W)
Judge(e) ==
  LET want == T4(e.term, e.ctx, {e.elim[i] : i \in DOMAIN e.elim}, {e.novars[i] : i \in DOMAIN e.novars}) IN
  IF e.refine /\ e.kind = "row" /\ Refuted(e) THEN <<"violation", "returned-term-refuted-at-a-point">>
  ELSE IF ~e.refine THEN (IF e.kind = "error" THEN <<"ok", "relaxing-refused">> ELSE <<"drift", "relaxing-not-refused">>)
  ELSE IF want.kind # e.kind THEN <<"drift", "outcome:" \o want.kind \o "-vs-" \o e.kind>>
  ELSE IF want.kind = "row" /\ ~SameTerm(want.row, e.row) THEN <<"drift", "different-term">>
  ELSE <<"ok", want.kind>>
TInit == tid \in 1..Len(Traces) /\ l = 0 /\ last = <<>>
TStep == /\ l < Len(Traces[tid].ev) /\ l' = l + 1
         /\ last' = <<(<<"t4">> \o Judge(Traces[tid].ev[l + 1]))>>
         /\ UNCHANGED tid
TSpec == TInit /\ [][TStep]_tvars
Report == l > 0 => \A i \in DOMAIN last : PrintT(<<"VERDICT", Traces[tid].id, l, last[i][1], last[i][2], last[i][3]>>)
=====================================================================
