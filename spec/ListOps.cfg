SPECIFICATION Spec
CONSTANTS
  Elems = {1, 2, 3}
  MaxLen = 3
INVARIANT Laws
CHECK_DEADLOCK FALSE
