SPECIFICATION Spec
CONSTANTS
  V = {"y1", "y2", "z"}
  Elim = {"y1", "y2"}
  TermCo <- TermCoSmall
  Ks <- KsSmall
  Cs <- CsSmall
  MaxCtx = 3
  NoNegation = FALSE
  KeepSelf = FALSE
INVARIANT Exact
INVARIANT Vacuity
INVARIANT Declines
CHECK_DEADLOCK FALSE
