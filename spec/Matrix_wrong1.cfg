SPECIFICATION Spec
CONSTANTS
  VarIds = {1, 2, 3}
  Coefs <- CoefSet
  Consts = {3}
  MaxKeys = 2
  MaxTerms = 2
  MaxCtx = 1
  RowByKeyOrder = TRUE
  Grid <- GridSet
INVARIANT Laws
CHECK_DEADLOCK FALSE
