--------------------------- MODULE TraceFaults ---------------------------
(* Judge of recorded outcomes of faulted dictionaries / file entries (C14 b). *)
EXTENDS DictFaults, IOUtils
Traces == ndJsonDeserialize(IOEnv.TRACE_FILE)
VARIABLES tid, l, last
tvars == <<tid, l, last, rep, level, path, fault>>
Judge(e) ==
  IF Rejected(e.outcome) THEN <<"ok", e.outcome>>
  ELSE IF e.outcome = "accepted" THEN <<"violation", "accepted:" \o e.entry>>
  ELSE <<"violation", "exception:" \o e.outcome>>
TInit == tid \in 1..Len(Traces) /\ l = 0 /\ last = <<>> /\ rep = "" /\ level = "" /\ path = "" /\ fault = ""
TStep == /\ l < Len(Traces[tid].ev) /\ l' = l + 1
         /\ last' = <<(<<"fault">> \o Judge(Traces[tid].ev[l + 1]))>>
         /\ UNCHANGED <<tid, rep, level, path, fault>>
TSpec == TInit /\ [][TStep]_tvars
Report == l > 0 => \A i \in DOMAIN last : PrintT(<<"VERDICT", Traces[tid].id, l, last[i][1], last[i][2], last[i][3]>>)
=====================================================================
