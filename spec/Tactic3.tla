------------------------------ MODULE Tactic3 ------------------------------
(***************************************************************************)
(* Tactic 3 of polyhedra.py (_tactic_3), the part that is its own: the     *)
(* change of variables handed to tactic 1.                                 *)
(*                                                                         *)
(* The term's weighted sum of the variables to eliminate,                  *)
(*      c_0 v_0 + c_1 v_1 + ... ,                                          *)
(* is replaced by ONE fresh variable "_" (coefficient 1, appended to the   *)
(* key order), and v_0 is substituted in every context row by              *)
(*      v_0 = (1 / c_0) _  -  SUM_{i > 0} (c_i / c_0) v_i ;                *)
(* tactic 1 is then asked to eliminate  (vars_to_elim + "_") - v_0.        *)
(*                                                                         *)
(* Terms are [ks, cf, c, den] as in TermAlgebra.tla (one positive          *)
(* denominator; "_" is the variable 0).                                    *)
(* Laws (TLC, every state): with  u = SUM c_i x_i , the new term at        *)
(* (x, _ = u) has the value of the term at x, and every new context row    *)
(* holds at (x, _ = u) exactly when the old one holds at x; v_0 occurs     *)
(* nowhere afterwards; the variables handed on are as coded.  The wrong    *)
(* variant with the RATIO INVERTED (c_0 / c_i) is refuted -- it is         *)
(* invisible when all coefficients have the same magnitude.                *)
(* Generator mode: every state with what tactic 1 must be called with;     *)
(* lib/t3drv.py calls the real _tactic_3 with tactic 1 replaced by a       *)
(* recorder and compares.                                                  *)
(***************************************************************************)
EXTENDS Integers, Sequences, FiniteSets, TLC, Json
CONSTANTS VarIds, CoT, CoC, ConstT, ConstC, MaxCtx, Grid, InvertRatio
SetA == {-2, 0, 1}
SetB == {-1, 0, 2}
SetG == {-1, 0, 2}
U == 0                       \* the fresh variable "_"
AllIds == VarIds \cup {U}
Rng(s) == {s[i] : i \in DOMAIN s}
Inj(s) == \A i, j \in DOMAIN s : i # j => s[i] # s[j]
Order == CHOOSE f \in [1..Cardinality(VarIds) -> VarIds] : \A i, j \in 1..Cardinality(VarIds) : i < j => f[i] < f[j]
Abs(n) == IF n < 0 THEN -n ELSE n
Sgn(n) == IF n > 0 THEN 1 ELSE IF n < 0 THEN -1 ELSE 0
Mk(co, c) == LET ks == SelectSeq(Order, LAMBDA v : co[v] # 0) IN [ks |-> ks, cf |-> [i \in 1..Len(ks) |-> co[ks[i]]], c |-> c, den |-> 1]
Coef(t, v) == IF v \in Rng(t.ks) THEN t.cf[CHOOSE i \in DOMAIN t.ks : t.ks[i] = v] ELSE 0
Union(a, b) == a \o SelectSeq(b, LAMBDA x : x \notin Rng(a))
Build(ks, num, c, den) == LET kk == SelectSeq(ks, LAMBDA v : num[v] # 0) IN [ks |-> kk, cf |-> [i \in 1..Len(kk) |-> num[kk[i]]], c |-> c, den |-> den]
Mul(t, f) == Build(t.ks, [v \in AllIds |-> f * Coef(t, v)], f * t.c, t.den)
Add(t, e) == Build(Union(t.ks, e.ks), [v \in AllIds |-> e.den * Coef(t, v) + t.den * Coef(e, v)], e.den * t.c + t.den * e.c, t.den * e.den)
Remove(t, v) == Build(t.ks, [w \in AllIds |-> IF w = v THEN 0 ELSE Coef(t, w)], t.c, t.den)
Substitute(t, v, e) == IF v \notin Rng(t.ks) THEN t ELSE Add(Remove(t, v), Mul(e, Coef(t, v)))

\* ---- _tactic_3 up to its call of tactic 1 (elim: the list vars_to_elim, in order)
Conflict(term, elim) == SelectSeq(elim, LAMBDA v : v \in Rng(term.ks))                 \* list_intersection(vars_to_elim, term.vars)
RECURSIVE RemoveAll(_, _, _)
RemoveAll(t, vs, i) == IF i > Len(vs) THEN t ELSE RemoveAll(Remove(t, vs[i]), vs, i + 1)
NewTerm(term, elim) == LET r == RemoveAll(term, Conflict(term, elim), 1) IN [ks |-> r.ks \o <<U>>, cf |-> r.cf \o <<1>>, c |-> r.c, den |-> r.den]
SubstTerm(term, elim) ==
  LET cv == Conflict(term, elim)  c0 == Coef(term, cv[1])  s == Sgn(c0)
      num == [w \in AllIds |-> IF w = U THEN s
                               ELSE IF w \in Rng(cv) /\ w # cv[1]
                                    THEN (IF InvertRatio THEN -s * c0 * c0 ELSE -s * Coef(term, w))
                                    ELSE 0]
      \* correct: the coefficient of w is  -c_w / c_0 = -s c_w / |c_0| .  Wrong variant: numerator and denominator of the ratio confused,
      \* -c_0 / c_w, modelled for c_w = 1 (that is -c_0, which is -s c_0 c_0 over the denominator |c_0|)
  IN Build(<<U>> \o SelectSeq(cv, LAMBDA w : w # cv[1]), num, 0, Abs(c0))
NewContext(term, ctx, elim) == [i \in 1..Len(ctx) |-> Substitute(ctx[i], Conflict(term, elim)[1], SubstTerm(term, elim))]
NewElims(term, elim) == SelectSeq(Union(elim, <<U>>), LAMBDA w : w # Conflict(term, elim)[1])

\* ---- meaning
RECURSIVE Lhs(_, _, _)
Lhs(t, x, i) == IF i > Len(t.ks) THEN 0 ELSE t.cf[i] * x[t.ks[i]] + Lhs(t, x, i + 1)
Holds(t, x) == Lhs(t, x, 1) <= t.c
RECURSIVE Weighted(_, _, _, _)
Weighted(term, cv, x, i) == IF i > Len(cv) THEN 0 ELSE Coef(term, cv[i]) * x[cv[i]] + Weighted(term, cv, x, i + 1)

VARIABLES term, ctx, elim
TermsT == {Mk(co, c) : co \in [VarIds -> CoT], c \in ConstT}
TermsC == {Mk(co, c) : co \in [VarIds -> CoC], c \in ConstC}
ElimLists == {s \in UNION {[1..n -> VarIds] : n \in 1..Cardinality(VarIds)} : Inj(s)}
Init == /\ term \in TermsT /\ ctx \in UNION {[1..n -> TermsC] : n \in 0..MaxCtx} /\ elim \in ElimLists
        /\ Conflict(term, elim) # <<>>
Next == UNCHANGED <<term, ctx, elim>>
Spec == Init /\ [][Next]_<<term, ctx, elim>>

Laws ==
  LET cv == Conflict(term, elim)  nt == NewTerm(term, elim)  nc == NewContext(term, ctx, elim) IN
  /\ \A x0 \in [VarIds -> Grid] :
       LET u == Weighted(term, cv, x0, 1)
           x == [w \in AllIds |-> IF w = U THEN u ELSE x0[w]] IN
       /\ Lhs(nt, x, 1) = Lhs(term, x, 1) /\ nt.c = term.c /\ nt.den = term.den
       /\ \A i \in DOMAIN ctx : Holds(nc[i], x) <=> Holds(ctx[i], x)
  /\ \A i \in DOMAIN ctx : cv[1] \notin Rng(nc[i].ks) /\ nc[i].den > 0 /\ \A n \in DOMAIN nc[i].cf : nc[i].cf[n] # 0
  /\ Rng(cv) \cap Rng(nt.ks) = {}
  /\ Rng(NewElims(term, elim)) = (Rng(elim) \cup {U}) \ {cv[1]}

Out(r) == [ks |-> r.ks, cf |-> r.cf, c |-> r.c, den |-> r.den]
Emit == PrintT(<<"CASE", ToJson([term |-> Out(term), ctx |-> [i \in 1..Len(ctx) |-> Out(ctx[i])], elim |-> elim,
          nt |-> Out(NewTerm(term, elim)), nc |-> [i \in 1..Len(ctx) |-> Out(NewContext(term, ctx, elim)[i])], ne |-> NewElims(term, elim)])>>)
=====================================================================
