SPECIFICATION Spec
CONSTANTS Vars = {a, b, c, d, e}
INVARIANT ComposeItfOK
INVARIANT QuotientItfOK
INVARIANT MergeItfOK
INVARIANT ListOpsOK
CHECK_DEADLOCK FALSE
