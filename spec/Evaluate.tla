----------------------------- MODULE Evaluate -----------------------------
(***************************************************************************)
(* PolyhedralTermList.evaluate and contains_behavior, as the code does     *)
(* them:                                                                   *)
(*   evaluate(values)   every assigned variable is substituted by its      *)
(*                      value (the constant moves by coefficient * value,  *)
(*                      the other keys keep their order); a term that has  *)
(*                      no variable left is DROPPED when it reads          *)
(*                      0 <= c with c >= 0 and makes the call raise        *)
(*                      ValueError when c < 0; terms with variables left   *)
(*                      are returned, in order                             *)
(*   contains_behavior  ValueError when a variable of the list has no      *)
(*                      value; otherwise "evaluate did not raise"          *)
(* A term is [ks, cf, c] as in Matrix.tla; an assignment is a function     *)
(* from a SUBSET of the variables to the grid.                             *)
(*                                                                         *)
(* Laws (TLC, every state): for every total valuation x that extends the   *)
(* assignment, the residual list holds at x exactly when the original      *)
(* does; the call raises only when no extension satisfies the original;    *)
(* no assigned variable is left; with a total assignment                   *)
(* contains_behavior is membership.  A wrong variant (the constant moves   *)
(* by the value alone, without the coefficient) must be refuted.           *)
(* In generator mode every state is printed with its results and replayed  *)
(* into the real functions (lib/evaldrv.py).                               *)
(***************************************************************************)
EXTENDS Integers, Sequences, FiniteSets, TLC, Json
CONSTANTS VarIds, Coefs, Consts, MaxKeys, MaxTerms, Grid,
          ForgetCoefficient      \* wrong variant (TRUE)
CoefSet3 == {-1, 1, 2}
CoefSet2 == {-1, 2}
GridSet3 == {-1, 0, 2}
GridSet2 == {-1, 2}

Rng(s) == {s[i] : i \in DOMAIN s}
Inj(s) == \A i, j \in DOMAIN s : i # j => s[i] # s[j]
KeySeqs == {s \in UNION {[1..n -> VarIds] : n \in 0..MaxKeys} : Inj(s)}
Terms == UNION {{[ks |-> s, cf |-> f, c |-> k] : f \in [1..Len(s) -> Coefs \ {0}], k \in Consts} : s \in KeySeqs}
TermLists == UNION {[1..m -> Terms] : m \in 0..MaxTerms}
Assignments == UNION {[D -> Grid] : D \in SUBSET VarIds}
ListVars(T) == UNION {Rng(T[i].ks) : i \in DOMAIN T}

RECURSIVE Moved(_, _, _)
Moved(t, val, i) == IF i > Len(t.ks) THEN 0
                    ELSE (IF t.ks[i] \in DOMAIN val THEN (IF ForgetCoefficient THEN val[t.ks[i]] ELSE t.cf[i] * val[t.ks[i]]) ELSE 0) + Moved(t, val, i + 1)
EvalTerm(t, val) ==
  LET keep == SelectSeq([j \in 1..Len(t.ks) |-> j], LAMBDA j : t.ks[j] \notin DOMAIN val) IN
  [ks |-> [n \in 1..Len(keep) |-> t.ks[keep[n]]], cf |-> [n \in 1..Len(keep) |-> t.cf[keep[n]]], c |-> t.c - Moved(t, val, 1)]
Mapped(T, val) == [i \in 1..Len(T) |-> EvalTerm(T[i], val)]
Raises(T, val) == \E i \in DOMAIN T : Mapped(T, val)[i].ks = <<>> /\ Mapped(T, val)[i].c < 0
Residual(T, val) == SelectSeq(Mapped(T, val), LAMBDA t : t.ks # <<>>)
Evaluate(T, val) == IF Raises(T, val) THEN [exc |-> "ValueError", res |-> <<>>] ELSE [exc |-> "none", res |-> Residual(T, val)]
Contains(T, val) == IF ~(ListVars(T) \subseteq DOMAIN val) THEN "ValueError" ELSE IF Raises(T, val) THEN "false" ELSE "true"

RECURSIVE SumTerm(_, _, _)
SumTerm(t, x, i) == IF i > Len(t.ks) THEN 0 ELSE t.cf[i] * x[t.ks[i]] + SumTerm(t, x, i + 1)
Holds(t, x) == SumTerm(t, x, 1) <= t.c
AllHold(T, x) == \A i \in DOMAIN T : Holds(T[i], x)
Extensions(val) == {x \in [VarIds -> Grid] : \A v \in DOMAIN val : x[v] = val[v]}

VARIABLES T, val
Init == T \in TermLists /\ val \in Assignments
Next == UNCHANGED <<T, val>>
Spec == Init /\ [][Next]_<<T, val>>

Laws ==
  LET e == Evaluate(T, val) IN
  /\ \A x \in Extensions(val) :
        /\ e.exc = "none" => (AllHold(T, x) <=> AllHold(e.res, x))
        /\ e.exc # "none" => ~AllHold(T, x)
  /\ e.exc = "none" => \A i \in DOMAIN e.res : Rng(e.res[i].ks) \cap DOMAIN val = {} /\ e.res[i].ks # <<>>
  /\ (DOMAIN val = VarIds) => Contains(T, val) = (IF AllHold(T, val) THEN "true" ELSE "false")
  /\ (Contains(T, val) = "ValueError") <=> (\E v \in ListVars(T) : v \notin DOMAIN val)

SetToSeq(S) == CHOOSE sq \in [1..Cardinality(S) -> S] : Rng(sq) = S
Emit == PrintT(<<"CASE", ToJson([t |-> T, dom |-> SetToSeq(DOMAIN val), vals |-> [i \in 1..Cardinality(DOMAIN val) |-> val[SetToSeq(DOMAIN val)[i]]],
                                  ev |-> Evaluate(T, val), cb |-> Contains(T, val)])>>)
=====================================================================
