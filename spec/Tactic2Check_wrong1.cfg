SPECIFICATION Spec
CONSTANTS
  V = {"y1", "y2", "z"}
  Elim = {"y1", "y2"}
  TermCo <- TermCoSmall
  Ks <- KsSmall
  Cs <- CsSmall
  MaxCtx = 2
  NoNegation = TRUE
  KeepSelf = FALSE
INVARIANT Exact
CHECK_DEADLOCK FALSE
