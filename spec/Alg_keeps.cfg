SPECIFICATION Spec
CONSTANTS
  Vars = {x, y}
  MaxG = 2
  Strong = TRUE
  Ops = {"compose", "merge"}
SYMMETRY Sym
INVARIANT Keeps
INVARIANT Sound
INVARIANT ExactM
INVARIANT WF
CHECK_DEADLOCK FALSE
