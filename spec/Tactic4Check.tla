--------------------------- MODULE Tactic4Check ---------------------------
(* Exhaustive check of Tactic4!Tactic4 over a small universe: every term with exactly one variable to eliminate,
   every context of at most MaxCtx rows (coefficients in Co, constants in Cs).  One initial state per (term, context). *)
EXTENDS Tactic4
CONSTANTS Co, Cs, MaxCtx, M, Elim, Pts
VARIABLES term, ctx
\* universes (a configuration file cannot hold negative numbers)
CoSmall == {-1, 0, 1}
CoQuick == {-1, 0, 1, 2}
CoWide == {-2, -1, 0, 1, 2}
CsQuick == {0, 1}
CsWide == {-1, 0, 1}
CsZero == {0}
PtsDef == {-2, -1, 0, 1, 2}
Rows == {r \in [co : [V -> Co], c : Cs, den : {1}] : \E u \in V : r.co[u] # 0}
Terms == {r \in Rows : Cardinality(TermVars(r) \cap Elim) = 1}
Ctxs == UNION {[1..n -> Rows] : n \in 0..MaxCtx}
Init == term \in Terms /\ ctx \in Ctxs
Next == UNCHANGED <<term, ctx>>
Spec == Init /\ [][Next]_<<term, ctx>>

Out == Tactic4(term, ctx, Elim)
RECURSIVE SumMu(_, _, _)
SumMu(mu, f, i) == IF i > Len(ctx) THEN 0 ELSE mu[i] * f[i] + SumMu(mu, f, i + 1)
\* exact certificate:  d * term = R + SUM mu_i ctx_i  on the coefficients,  d * c_term >= c_R + SUM mu_i c_i  on the bounds,
\* with d > 0 and mu_i >= 0: then  ctx /\ R => term  at EVERY real point
Certified(R) ==
  \E d \in 1..M : \E mu \in [DOMAIN ctx -> 0..M] :
     /\ \A u \in V : d * term.co[u] = R.co[u] + SumMu(mu, [i \in DOMAIN ctx |-> ctx[i].co[u]], 1)
     /\ d * term.c >= R.c + SumMu(mu, [i \in DOMAIN ctx |-> ctx[i].c], 1)
Sound == Out.kind = "row" => Certified(Out.row)
NoLeftover == Out.kind = "row" => Eliminated(Out.row, Elim)
\* a concrete refutation on a grid of points (what the configurations reproducing the pinned defects end with)
NoRefutingPoint == Out.kind = "row" => \A p \in [V -> Pts] : ~Refutes(p, term, ctx, Out.row)
\* vacuity guards, used as properties that MUST be violated: the tactic succeeds directly, through the recursion,
\* and through a later useful row after an earlier one failed
NeverDirect == ~(Out.kind = "row" /\ \E i \in DOMAIN ctx : Cardinality(TermVars(ctx[i]) \cap Elim) = 1 /\ Len(ctx) = 1)
NeverRecursive == ~(Out.kind = "row" /\ \A i \in DOMAIN ctx : Cardinality(TermVars(ctx[i]) \cap Elim) # 1 \/ ctx[i].co[CHOOSE u \in Elim \cap TermVars(term) : TRUE] = 0)
=====================================================================
