--------------------------- MODULE TraceTactics ---------------------------
(* Conformance (drift tier) of the real _transform / _transform_term with Tactics.tla: the recorded
   sequence of tactic attempts and the reported statistics must be a behaviour of the model. *)
EXTENDS Tactics, Json, IOUtils
Traces == ndJsonDeserialize(IOEnv.TRACE_FILE)
VARIABLES tid
tvars == <<vars, tid>>
P == Traces[tid]
TInit ==
  /\ tid \in 1..Len(Traces)
  /\ refine = P.refine /\ hasElim = [j \in 1..N |-> j <= Len(P.hasElim) /\ P.hasElim[j]] /\ order = P.order
  /\ i = 1 /\ k = 1 /\ cur = [j \in 1..N |-> j] /\ stat = [j \in 1..N |-> 99] /\ attempts = <<>> /\ ax = {}
  /\ pc = "term" /\ leftover = [j \in 1..N |-> FALSE]
Same(a, b) == a.term = b.term /\ a.tactic = b.tactic /\ a.outcome = b.outcome
TNext ==
  /\ Next
  /\ Len(attempts') <= Len(P.attempts)
  /\ (Len(attempts') > Len(attempts) => Same(attempts'[Len(attempts')], P.attempts[Len(attempts')]))
  /\ UNCHANGED tid
TSpec == TInit /\ [][TNext]_tvars
ElimTerms == SelectSeq([j \in 1..N |-> j], LAMBDA j : hasElim[j])
Agrees == Len(attempts) = Len(P.attempts) /\ [m \in DOMAIN ElimTerms |-> stat[ElimTerms[m]]] = P.stat
\* the "okleft" / "ok" split is invisible in the log: both branches reach the same verdict, print once
Report == (pc = "done" /\ \A j \in 1..N : ~leftover[j]) => PrintT(<<"VERDICT", P.id, 1, "conform", IF Agrees THEN "ok" ELSE "drift", "">>)
=====================================================================
