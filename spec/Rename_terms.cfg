SPECIFICATION Spec
CONSTANTS
  VarIds = {1, 2, 3}
  Fresh = 4
  Coefs <- CoefSet
  Consts = {3}
  MaxKeys = 3
  MaxTerms = 1
  Grid <- GridSet
  Mode = "terms"
  AddWithoutMerge = FALSE
INVARIANT Laws
CHECK_DEADLOCK FALSE
