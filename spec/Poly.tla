---------------------------- MODULE Poly ----------------------------
(***************************************************************************)
(* Polyhedral semantics in exact integer arithmetic.                       *)
(*                                                                         *)
(* A row  [co |-> [v |-> Int], c |-> Int, k |-> Nat\{0}]  denotes the      *)
(* half-space  SUM co[v]*v <= c ; it is the rational row the library       *)
(* produced, multiplied by k > 0 (k is needed only to scale the tolerance  *)
(* of the numeric reading: a conclusion is violated only if broken by more *)
(* than 1e-4*(1+|constant|) inside the box |v| <= 1000).                   *)
(* A point is q/d : q an integer valuation, d a positive denominator.      *)
(* TLC integers are 32 bit and overflow aborts the run (never wraps); the  *)
(* harness pre-computes magnitudes, so nothing here overflows silently.    *)
(***************************************************************************)
EXTENDS Integers, Sequences, FiniteSets, FiniteSetsExt, TLC

Box == 1000
Abs(i) == IF i < 0 THEN -i ELSE i
PSum(S, f(_)) == FoldSet(LAMBDA i, acc : acc + f(i), 0, S)
Rng(s) == {s[i] : i \in DOMAIN s}

Coef(r, v) == IF v \in DOMAIN r.co THEN r.co[v] ELSE 0
RowVars(r) == {v \in DOMAIN r.co : r.co[v] # 0}
RowsVars(rs) == UNION {RowVars(rs[i]) : i \in DOMAIN rs}
Row(co, c, k) == [co |-> co, c |-> c, k |-> k]
WellFormedRow(r) == r.k > 0

(* ---- evaluation at a point q/d ---- *)
Val(q, v) == IF v \in DOMAIN q THEN q[v] ELSE 0
Dot(r, q) == PSum(DOMAIN r.co, LAMBDA v : r.co[v] * Val(q, v))
Excess(r, q, d) == Dot(r, q) - r.c * d          \* scaled by k*d ; > 0 iff row violated
HoldsAt(r, q, d) == Excess(r, q, d) <= 0
AllHoldAt(rs, q, d) == \A i \in DOMAIN rs : HoldsAt(rs[i], q, d)
\* broken by more than tol = 1e-4*(1+|c|) in the row's own units
BrokenAt(r, q, d) == LET e == Excess(r, q, d) IN e > 0 /\ e * 10000 > (r.k + Abs(r.c)) * d
\* broken by at least 1/1000 in the row's own units (clear of the 1e-7 slack
\* that negatively occurring assumptions are granted)
ClearlyBrokenAt(r, q, d) == LET e == Excess(r, q, d) IN e > 0 /\ e * 1000 >= r.k * d
InBox(names, q, d) == d > 0 /\ \A v \in names : v \in DOMAIN q /\ Abs(q[v]) <= Box * d

(* ---- box rows and closed complement ---- *)
BoxRows(nameSeq) == [i \in 1..(2 * Len(nameSeq)) |->
    LET v == nameSeq[(i + 1) \div 2]  s == IF i % 2 = 1 THEN 1 ELSE -1 IN
    Row([w \in {v} |-> s], Box, 1)]
\* closed complement  a.x >= c  of the row a.x <= c
Neg(r) == Row([v \in DOMAIN r.co |-> -r.co[v]], -r.c, r.k)

(* ---- certificates: checked, never searched for ---- *)
Lam(h, i) == LET key == ToString(i) IN IF key \in DOMAIN h.lam THEN h.lam[key] ELSE 0
\* Farkas: nonnegative multipliers over hyp \o BoxRows reproduce mu*target's
\* coefficients and bound its constant within 0.9*tol
FarkasGen(hyp, nameSeq, t, h, exact) ==
  LET rows == hyp \o BoxRows(nameSeq)
      n == Len(rows)
      names == Rng(nameSeq)
      used == {i \in 1..n : Lam(h, i) # 0}
      bound == PSum(used, LAMBDA i : Lam(h, i) * rows[i].c)
      slackD == bound - h.mu * t.c
  IN /\ h.mu > 0
     /\ \A i \in 1..n : Lam(h, i) >= 0
     /\ \A key \in DOMAIN h.lam : \E i \in 1..n : key = ToString(i)
     /\ \A v \in names \cup RowsVars(rows) \cup RowVars(t) :
           PSum(used, LAMBDA i : Lam(h, i) * Coef(rows[i], v)) = h.mu * Coef(t, v)
     /\ (slackD <= 0 \/ (~exact /\ slackD * 100000 <= 9 * h.mu * (t.k + Abs(t.c))))
FarkasOK(hyp, nameSeq, t, h) == FarkasGen(hyp, nameSeq, t, h, FALSE)
\* the same with no tolerance at all: hyp /\ box => t exactly
FarkasExact(hyp, nameSeq, t, h) == FarkasGen(hyp, nameSeq, t, h, TRUE)
\* certificates that do not lean on the box rows (facts about the unbounded polyhedron)
NoBox(hyp, h) == \A key \in DOMAIN h.lam : h.lam[key] = 0 \/ \E i \in 1..Len(hyp) : key = ToString(i)
\* hyp => t with a margin of at least tol: t is implied "with room to spare" (C07 irredundancy)
FarkasMargin(hyp, nameSeq, t, h) ==
  LET n == Len(hyp)
      used == {i \in 1..n : Lam(h, i) # 0}
      bound == PSum(used, LAMBDA i : Lam(h, i) * hyp[i].c)
      slackD == bound - h.mu * t.c
  IN /\ h.mu > 0 /\ NoBox(hyp, h)
     /\ \A i \in 1..n : Lam(h, i) >= 0
     /\ \A v \in Rng(nameSeq) \cup RowsVars(hyp) \cup RowVars(t) :
           PSum(used, LAMBDA i : Lam(h, i) * Coef(hyp[i], v)) = h.mu * Coef(t, v)
     /\ slackD < 0 /\ slackD * 10000 + h.mu * (t.k + Abs(t.c)) <= 0
\* Farkas infeasibility of hyp inside the box
InfeasOK(hyp, nameSeq, h) ==
  LET rows == hyp \o BoxRows(nameSeq)
      n == Len(rows)
      used == {i \in 1..n : Lam(h, i) # 0}
  IN /\ \A i \in 1..n : Lam(h, i) >= 0
     /\ \A key \in DOMAIN h.lam : \E i \in 1..n : key = ToString(i)
     /\ \A v \in Rng(nameSeq) \cup RowsVars(rows) :
           PSum(used, LAMBDA i : Lam(h, i) * Coef(rows[i], v)) = 0
     /\ PSum(used, LAMBDA i : Lam(h, i) * rows[i].c) < 0
\* a witness point: all hypotheses hold, target broken by more than tol
WitnessOK(hyp, nameSeq, t, h) ==
  /\ InBox(Rng(nameSeq) \cup RowsVars(hyp) \cup RowVars(t), h.q, h.d)
  /\ AllHoldAt(hyp, h.q, h.d)
  /\ BrokenAt(t, h.q, h.d)

(* ---- two-scale witness points ------------------------------------------- *)
(* Near-duplicate hyperplanes enclose a wedge too thin for a small-denominator point and too far  *)
(* out for 32-bit products.  A two-scale point  p0 + w/D  (p0, w integer vectors, 0 < D <= 2000)   *)
(* is evaluated without ever forming E*D:  row excess = (E*D + W)/D with E = Dot(r,p0) - c and     *)
(* W = Dot(r,w);  E*D + W <= 0  iff  E <= (-W) \div D  (floor division), and                      *)
(* 10^4*(E*D + W) > T*D  iff  10^4*E - T > (-(10^4*W)) \div D.                                     *)
HoldsAt2(r, p0, w, D) == Dot(r, p0) - r.c <= (-Dot(r, w)) \div D
BrokenAt2(r, p0, w, D) ==
  LET E == Dot(r, p0) - r.c  W == Dot(r, w) IN
  /\ Abs(E) <= 200000 /\ Abs(W) <= 200000        \* magnitudes for which the products below fit
  /\ 10000 * E - (r.k + Abs(r.c)) > (-(10000 * W)) \div D
InBox2(names, p0, w, D) ==
  /\ D > 0 /\ D <= 2000
  /\ \A v \in names : v \in DOMAIN p0 /\ v \in DOMAIN w /\ Abs(p0[v]) <= Box - 1 /\ Abs(w[v]) <= D
WitnessOK2(hyp, nameSeq, t, h) ==
  /\ InBox2(Rng(nameSeq) \cup RowsVars(hyp) \cup RowVars(t), h.q, h.w, h.d)
  /\ \A i \in DOMAIN hyp : HoldsAt2(hyp[i], h.q, h.w, h.d)
  /\ BrokenAt2(t, h.q, h.w, h.d)

(* ---- TLC's own hint-independent search: an integer grid ---- *)
Grid(names, g) == [names -> -g..g]
GridViolated(hyp, names, t, g) ==
  \E p \in Grid(names, g) : AllHoldAt(hyp, p, 1) /\ BrokenAt(t, p, 1)

(* ---- plain implication  hyp /\ box => t , decided from an untrusted hint ---- *)
\* "holds" : certified for all real points of the box
\* "broken": a witness confirmed by evaluation (or found on the grid)
\* "open"  : neither (counted as unjudged, never an alarm)
Decide(hyp, nameSeq, t, h, g) ==
  IF h.kind = "witness" /\ WitnessOK(hyp, nameSeq, t, h) THEN "broken"
  ELSE IF h.kind = "witness2" /\ WitnessOK2(hyp, nameSeq, t, h) THEN "broken"
  ELSE IF g > 0 /\ GridViolated(hyp, Rng(nameSeq), t, g) THEN "broken"
  ELSE IF h.kind = "cert" /\ FarkasOK(hyp, nameSeq, t, h) THEN "holds"
  ELSE IF h.kind = "infeasible" /\ InfeasOK(hyp, nameSeq, h) THEN "holds"
  ELSE "open"

(* ---- guarded implication ---------------------------------------------- *)
(* base /\ AND_i (A_i => G_i) /\ box  =>  t                                 *)
(* comps[i] = [a |-> rows, g |-> rows].  A case picks for each component   *)
(* either 0 ("its assumptions hold, hence so do its guarantees") or j > 0  *)
(* ("its j-th assumption row is broken": closed complement, see DESIGN 4). *)
RECURSIVE FlatCase(_, _, _)
FlatCase(comps, cs, i) ==
  IF i > Len(comps) THEN <<>>
  ELSE (IF cs[i] = 0 THEN comps[i].a \o comps[i].g ELSE <<Neg(comps[i].a[cs[i]])>>)
       \o FlatCase(comps, cs, i + 1)
\* the same, leaving out component `skip`
RECURSIVE FlatCaseSkip(_, _, _, _)
FlatCaseSkip(comps, cs, i, skip) ==
  IF i > Len(comps) THEN <<>>
  ELSE (IF i = skip THEN <<>> ELSE IF cs[i] = 0 THEN comps[i].a \o comps[i].g ELSE <<Neg(comps[i].a[cs[i]])>>)
       \o FlatCaseSkip(comps, cs, i + 1, skip)
RECURSIVE CaseKeyR(_, _)
CaseKeyR(cs, i) == IF i > Len(cs) THEN "" ELSE ToString(cs[i]) \o (IF i < Len(cs) THEN "." ELSE "") \o CaseKeyR(cs, i + 1)
CaseKey(cs, i) == IF Len(cs) = 0 THEN "-" ELSE CaseKeyR(cs, i)
AllCases(comps) ==
  IF Len(comps) = 0 THEN {<<>>}
  ELSE IF Len(comps) = 1 THEN {<<j>> : j \in 0..Len(comps[1].a)}
  ELSE IF Len(comps) = 2 THEN {<<j, l>> : j \in 0..Len(comps[1].a), l \in 0..Len(comps[2].a)}
  ELSE {<<j, l, m>> : j \in 0..Len(comps[1].a), l \in 0..Len(comps[2].a), m \in 0..Len(comps[3].a)}
\* component satisfied at a point, unambiguously under both the exact and the slack reading
CompSatAt(cp, q, d) == (\E j \in DOMAIN cp.a : ClearlyBrokenAt(cp.a[j], q, d)) \/ AllHoldAt(cp.g, q, d)
GuardedWitnessOK(base, comps, nameSeq, t, h) ==
  /\ InBox(Rng(nameSeq), h.q, h.d)
  /\ AllHoldAt(base, h.q, h.d)
  /\ \A i \in DOMAIN comps : CompSatAt(comps[i], h.q, h.d)
  /\ BrokenAt(t, h.q, h.d)
GuardedGridViolated(base, comps, names, t, g) ==
  \E p \in Grid(names, g) :
     /\ AllHoldAt(base, p, 1) /\ (\A i \in DOMAIN comps : CompSatAt(comps[i], p, 1)) /\ BrokenAt(t, p, 1)
\* hint = [wit |-> hint, cases |-> [caseKey |-> hint]]
DecideGuarded(base, comps, nameSeq, t, h, g) ==
  IF h.wit.kind = "witness" /\ GuardedWitnessOK(base, comps, nameSeq, t, h.wit) THEN "broken"
  ELSE IF g > 0 /\ GuardedGridViolated(base, comps, Rng(nameSeq), t, g) THEN "broken"
  ELSE IF \A cs \in AllCases(comps) :
            LET key == CaseKey(cs, 1)
                hyp == base \o FlatCase(comps, cs, 1) IN
            /\ key \in DOMAIN h.cases
            /\ \/ (h.cases[key].kind = "cert" /\ FarkasOK(hyp, nameSeq, t, h.cases[key]))
               \/ (h.cases[key].kind = "infeasible" /\ InfeasOK(hyp, nameSeq, h.cases[key]))
               \* the case "assumption row j of component i is broken" is empty: the other
               \* hypotheses of the case imply that row exactly (DESIGN 4, strict cases)
               \/ (h.cases[key].kind = "empty"
                   /\ h.cases[key].d \in DOMAIN comps /\ cs[h.cases[key].d] > 0
                   /\ FarkasExact(base \o FlatCaseSkip(comps, cs, 1, h.cases[key].d), nameSeq,
                                  comps[h.cases[key].d].a[cs[h.cases[key].d]], h.cases[key]))
       THEN "holds"
  ELSE "open"
=====================================================================
