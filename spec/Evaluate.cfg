SPECIFICATION Spec
CONSTANTS
  VarIds = {1, 2, 3}
  Coefs <- CoefSet3
  Consts = {1}
  MaxKeys = 2
  MaxTerms = 2
  Grid <- GridSet3
  ForgetCoefficient = FALSE
INVARIANT Laws
CHECK_DEADLOCK FALSE
