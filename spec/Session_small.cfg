SPECIFICATION Spec
CONSTANTS
  MaxLen = 2
  NSeed = 3
  EmitLen = 99
  OpFilter <- AllOps
  NParam = 2
INVARIANT WellTyped
CHECK_DEADLOCK FALSE
