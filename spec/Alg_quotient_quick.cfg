SPECIFICATION Spec
CONSTANTS
  Vars = {x, y}
  MaxG = 1
  Strong = FALSE
  Ops = {"quotient"}
SYMMETRY Sym
INVARIANT SoundQ
INVARIANT WF
INVARIANT ExcOK
CHECK_DEADLOCK FALSE
