SPECIFICATION Spec
CONSTANTS Vars = {a, b, c, d}
INVARIANT ComposeItfOK
INVARIANT QuotientItfOK
INVARIANT MergeItfOK
INVARIANT ListOpsOK
CHECK_DEADLOCK FALSE
