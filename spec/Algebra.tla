---------------------------- MODULE Algebra ----------------------------
(***************************************************************************)
(* The algebra layer of pacti (iocontract.py: compose_tactics,             *)
(* quotient_tactics, merge, the IoContract constructor) over an ABSTRACT   *)
(* constraint domain, one action per statement that matters (C05, C06,     *)
(* algebra part of C01, C02, C08, C15).                                    *)
(*                                                                         *)
(* A term is [tag, vars]: an uninterpreted predicate with a syntactic      *)
(* variable set.  A term list is a set of terms (its conjunction).  The    *)
(* state is purely syntactic.  Every primitive call (elim-by-refining,     *)
(* elim-by-relaxing, simplify, refines) has a nondeterministic outcome     *)
(* allowed by its DOCUMENTED contract and leaves one axiom record in `ax`. *)
(* The obligations are decided by Horn forward chaining over the tags      *)
(* (single-world reduction, DESIGN 3.3): complete for ALL contents of the  *)
(* predicates; bounded only in the syntax (number of variables, terms per  *)
(* list).                                                                  *)
(***************************************************************************)
EXTENDS Integers, FiniteSets, TLC
CONSTANTS Vars,        \* variable names
          MaxG,        \* max number of terms in a guarantee list of an operand (1 or 2)
          Strong,      \* use the strengthened relax contract (needed for C15 only)
          Ops          \* subset of {"compose", "quotient", "merge"}
Sym == Permutations(Vars)

Roles == {"I", "O", "N"}
T(tag, vs) == [tag |-> tag, vars |-> vs]
VarsOf(tl) == UNION {t.vars : t \in tl}
Tags(tl) == {t.tag : t \in tl}
WithVars(tl, vs) == {t \in tl : t.vars \cap vs # {}}
Contract(inv, outv, a, g) == [inv |-> inv, outv |-> outv, a |-> a, g |-> g]
NoContract == [none |-> TRUE]

VARIABLES op, c1, c2, opt, simp, pc, asm, g1, g2, gua, res, exc, ax, nt, itf
vars == <<op, c1, c2, opt, simp, pc, asm, g1, g2, gua, res, exc, ax, nt, itf>>
\* c1 is the receiver (self), c2 the argument (other); for quotient c1 is the dividend.
\* opt: vars_to_keep (compose) / additional_inputs (quotient)

TermChoices(allowed, tag) == {T(tag, vs) : vs \in (SUBSET allowed) \ {{}}}
ListChoices1(allowed, tag) == {{}} \cup {{t} : t \in TermChoices(allowed, tag)}
ListChoices2(allowed, tag) == ListChoices1(allowed, tag) \cup
      {{t, u} : t \in TermChoices(allowed, tag), u \in TermChoices(allowed, tag + 1)}
GChoices(allowed, tag) == IF MaxG >= 2 THEN ListChoices2(allowed, tag) ELSE ListChoices1(allowed, tag)

Init ==
  \E r1 \in [Vars -> Roles], r2 \in [Vars -> Roles] :
    LET i1 == {v \in Vars : r1[v] = "I"}  o1 == {v \in Vars : r1[v] = "O"}
        i2 == {v \in Vars : r2[v] = "I"}  o2 == {v \in Vars : r2[v] = "O"} IN
    /\ \A v \in Vars : ~(r1[v] = "N" /\ r2[v] = "N")
    /\ \E a1 \in ListChoices1(i1, 1), gg1 \in GChoices(i1 \cup o1, 2),
          a2 \in ListChoices1(i2, 4), gg2 \in GChoices(i2 \cup o2, 5) :
         /\ c1 = Contract(i1, o1, a1, gg1)
         /\ c2 = Contract(i2, o2, a2, gg2)
    /\ op \in Ops
    /\ opt \in SUBSET Vars
    /\ (op = "merge" => opt = {})
    /\ simp \in BOOLEAN
    /\ (op = "merge" => simp = TRUE)
    /\ pc = "start" /\ asm = {} /\ g1 = {} /\ g2 = {} /\ gua = {} /\ res = NoContract
    /\ exc = "none" /\ ax = {} /\ nt = 10
    /\ itf = [intv |-> {}, inv |-> {}, outv |-> {}, forb |-> {}]

Raise(e) == pc' = "raised" /\ exc' = e

(* ---- outcome shapes of a primitive ------------------------------------- *)
(* The algebra observes a primitive's result only through variable sets    *)
(* (monotone tests), so a result is <= 1 fresh "clean" term and <= 1 fresh *)
(* "leftover" term, each absent or mentioning every candidate variable.    *)
Outcomes(cand, F, t0) ==
   LET cl == {{}, {T(t0, cand \ F)}}
       dl == IF cand \cap F = {} THEN {{}} ELSE {{}, {T(t0 + 1, cand)}}
   IN {x \cup y : x \in cl, y \in dl}

AxRefine(ctx, s, x) == [k |-> "refine", ctx |-> Tags(ctx), s |-> Tags(s), x |-> Tags(x), xc |-> {}, keepc |-> {}]
AxRelax(ctx, s, x, F) ==
  [k |-> "relax", ctx |-> Tags(ctx), s |-> Tags(s), x |-> Tags(x),
   xc |-> Tags({u \in x : u.vars \cap F = {}}), keepc |-> Tags({u \in s : u.vars \cap F = {}})]
AxSimp(ctx, s, x) == [k |-> "simp", ctx |-> Tags(ctx), s |-> Tags(s), x |-> Tags(x), xc |-> {}, keepc |-> {}]
AxRefinesT(l, r) == [k |-> "refinesT", ctx |-> {}, s |-> Tags(r), x |-> Tags(l), xc |-> {}, keepc |-> {}]

\* an outcome is a record [kind, x]: "ve" (ValueError), "skip"/"invalid" (no primitive ran), "ok" with result x
O(kind, x) == [kind |-> kind, x |-> x]
Ok(S) == {O("ok", x) : x \in S}
VE == {O("ve", {})}

(* ======================= compose_tactics ================================= *)
ComposeStart ==
  /\ pc = "start" /\ op = "compose"
  /\ LET outs == c1.outv \cup c2.outv
         intv0 == (c1.outv \cap c2.inv) \cup (c1.inv \cap c2.outv)
         inv  == (c1.inv \cup c2.inv) \ intv0
         outv0 == (c1.outv \cup c2.outv) \ intv0
         intv == intv0 \ opt
         outv == outv0 \cup opt
         cyc == (c1.inv \cap c2.outv # {}) /\ (c2.inv \cap c1.outv # {})
         drives == (c2.outv \cap VarsOf(c1.a) # {}) \/ (c1.outv \cap VarsOf(c2.a) # {})
     IN
     IF opt \ outs # {} THEN Raise("IncompatibleArgsError") /\ UNCHANGED <<itf, asm>>
     ELSE IF c1.outv \cap c2.outv # {} THEN Raise("IncompatibleArgsError") /\ UNCHANGED <<itf, asm>>
     ELSE IF cyc /\ drives THEN Raise("IncompatibleArgsError") /\ UNCHANGED <<itf, asm>>
     ELSE
       /\ itf' = [intv |-> intv, inv |-> inv, outv |-> outv, forb |-> intv \cup outv]
       /\ exc' = exc
       /\ LET sho == c2.inv \cap c1.outv # {}   \* self helps other
              ohs == c2.outv \cap c1.inv # {} IN
          IF sho /\ ~ohs THEN pc' = "refineA" /\ asm' = [who |-> 2]
          ELSE IF ohs /\ ~sho THEN pc' = "refineA" /\ asm' = [who |-> 1]
          ELSE pc' = "simpA" /\ asm' = c1.a \cup c2.a
  /\ UNCHANGED <<op, c1, c2, opt, simp, g1, g2, gua, res, ax, nt>>

\* the pending call at refineA: operand, context, eliminated set
RefineA_S == IF asm.who = 2 THEN c2.a ELSE c1.a
RefineA_Ctx == IF asm.who = 2 THEN c1.a \cup c1.g ELSE c2.a \cup c2.g
RefineA(out) ==
  /\ pc = "refineA"
  /\ LET hp == IF asm.who = 2 THEN c1 ELSE c2 IN
     IF out.kind = "ve" THEN Raise("ValueError") /\ UNCHANGED <<asm, ax, nt>>
     ELSE /\ ax' = ax \cup {AxRefine(RefineA_Ctx, RefineA_S, out.x)}
          /\ nt' = nt + 2
          /\ IF VarsOf(out.x) \cap itf.forb # {}
             THEN Raise("IncompatibleArgsError") /\ UNCHANGED asm
             ELSE pc' = "simpA" /\ asm' = out.x \cup hp.a /\ exc' = exc
  /\ UNCHANGED <<op, c1, c2, opt, simp, g1, g2, gua, res, itf>>

SimpA(out) ==
  /\ pc = "simpA"
  /\ IF ~simp THEN out.kind = "skip" /\ pc' = "relax1" /\ UNCHANGED <<asm, ax, exc>>
     ELSE IF out.kind = "ve" THEN Raise("ValueError") /\ UNCHANGED <<asm, ax>>
     ELSE /\ out.x \subseteq asm
          /\ asm' = out.x /\ pc' = "relax1" /\ exc' = exc
          /\ ax' = ax \cup {AxSimp({}, asm, out.x)}
  /\ UNCHANGED <<op, c1, c2, opt, simp, g1, g2, gua, res, nt, itf>>

Relax3_S == (g1 \cup g2) \cup ((c1.g \cup c2.g) \ WithVars(c1.g \cup c2.g, itf.intv))
Relax1(out) ==
  /\ pc = "relax1"
  /\ IF out.kind = "ve" THEN Raise("ValueError") /\ UNCHANGED <<g1, ax, nt>>
     ELSE ax' = ax \cup {AxRelax(c2.g, c1.g, out.x, itf.intv)} /\ nt' = nt + 2 /\ pc' = "relax2" /\ exc' = exc /\ g1' = out.x
  /\ UNCHANGED <<op, c1, c2, opt, simp, asm, g2, gua, res, itf>>
Relax2(out) ==
  /\ pc = "relax2"
  /\ IF out.kind = "ve" THEN Raise("ValueError") /\ UNCHANGED <<g2, ax, nt>>
     ELSE ax' = ax \cup {AxRelax(c1.g, c2.g, out.x, itf.intv)} /\ nt' = nt + 2 /\ pc' = "relax3" /\ exc' = exc /\ g2' = out.x
  /\ UNCHANGED <<op, c1, c2, opt, simp, asm, g1, gua, res, itf>>
Relax3(out) ==
  /\ pc = "relax3"
  /\ IF out.kind = "ve" THEN Raise("ValueError") /\ UNCHANGED <<gua, ax, nt>>
     ELSE /\ ax' = ax \cup {AxRelax(asm, Relax3_S, out.x, itf.intv)} /\ nt' = nt + 2 /\ pc' = "ctor" /\ exc' = exc
          /\ gua' = out.x \ WithVars(out.x, itf.intv)
  /\ UNCHANGED <<op, c1, c2, opt, simp, asm, g1, g2, res, itf>>

(* ======================= quotient_tactics ================================ *)
QuotientStart(refinesAnswer) ==
  /\ pc = "start" /\ op = "quotient"
  /\ IF (c1.outv \ c2.outv) \cap c2.inv # {} THEN Raise("IncompatibleArgsError") /\ UNCHANGED <<itf, asm, ax>>
     ELSE IF opt \ (c2.outv \cup c1.inv) # {} THEN Raise("IncompatibleArgsError") /\ UNCHANGED <<itf, asm, ax>>
     ELSE /\ itf' = [outv |-> (c1.outv \ c2.outv) \cup (c2.inv \ c1.inv),
                     inv |-> ((c1.inv \ c2.inv) \cup (c2.outv \ c1.outv)) \cup opt,
                     intv |-> ((c1.outv \cap c2.outv) \cup (c1.inv \cap c2.inv)) \ opt,
                     forb |-> {}]
          /\ exc' = exc /\ pc' = "relaxQA"
          \* assumptions.refines(other.a): either answer; TRUE is an axiom (containment holds)
          /\ IF refinesAnswer
             THEN asm' = c1.a \cup c2.g /\ ax' = ax \cup {AxRefinesT(c1.a, c2.a)}
             ELSE asm' = c1.a /\ ax' = ax
  /\ UNCHANGED <<op, c1, c2, opt, simp, g1, g2, gua, res, nt>>

RelaxQA_F == itf.intv \cup itf.outv
RelaxQA(out) ==
  /\ pc = "relaxQA"
  /\ IF out.kind = "ve" THEN Raise("ValueError") /\ UNCHANGED <<asm, ax, nt>>
     ELSE ax' = ax \cup {AxRelax({}, asm, out.x, RelaxQA_F)} /\ nt' = nt + 2 /\ asm' = out.x /\ pc' = "refineG1" /\ exc' = exc
  /\ UNCHANGED <<op, c1, c2, opt, simp, g1, g2, gua, res, itf>>

RefineG1(out) ==
  /\ pc = "refineG1"
  /\ IF out.kind = "ve" THEN gua' = c1.g \cup c2.a /\ UNCHANGED <<ax, nt>>      \* ValueError caught
     ELSE ax' = ax \cup {AxRefine(c2.g \cup c2.a, c1.g, out.x)} /\ nt' = nt + 2 /\ gua' = out.x \cup c2.a
  /\ pc' = "refineG2" /\ UNCHANGED <<op, c1, c2, opt, simp, asm, g1, g2, res, exc, itf>>

RefineG2(out) ==
  /\ pc = "refineG2"
  /\ IF out.kind = "ve"
     THEN /\ UNCHANGED <<ax, nt>>                              \* caught: guarantees unchanged
          /\ IF VarsOf(gua) \cap itf.intv # {} THEN Raise("IncompatibleArgsError") /\ UNCHANGED gua
             ELSE pc' = "ctor" /\ UNCHANGED <<gua, exc>>
     ELSE /\ ax' = ax \cup {AxRefine(c1.a, gua, out.x)} /\ nt' = nt + 2
          /\ IF VarsOf(out.x) \cap itf.intv # {} THEN Raise("IncompatibleArgsError") /\ UNCHANGED gua
             ELSE pc' = "ctor" /\ gua' = out.x /\ exc' = exc
  /\ UNCHANGED <<op, c1, c2, opt, simp, asm, g1, g2, res, itf>>

(* ======================= merge =========================================== *)
MergeStart ==
  /\ pc = "start" /\ op = "merge"
  /\ itf' = [inv |-> c1.inv \cup c2.inv, outv |-> c1.outv \cup c2.outv, intv |-> {}, forb |-> {}]
  /\ asm' = c1.a \cup c2.a /\ gua' = c1.g \cup c2.g /\ pc' = "ctor"
  /\ UNCHANGED <<op, c1, c2, opt, simp, g1, g2, res, exc, ax, nt>>

(* ======================= the constructor ================================= *)
CtorValid == /\ itf.inv \cap itf.outv = {}
             /\ VarsOf(asm) \subseteq itf.inv
             /\ VarsOf(gua) \subseteq itf.inv \cup itf.outv
Ctor(out) ==
  /\ pc = "ctor"
  /\ IF ~CtorValid THEN out.kind = "invalid" /\ Raise("IncompatibleArgsError") /\ UNCHANGED <<res, ax>>
     ELSE IF out.kind = "ve" THEN Raise("ValueError") /\ UNCHANGED <<res, ax>>
     ELSE /\ out.x \subseteq gua
          /\ res' = Contract(itf.inv, itf.outv, asm, out.x) /\ pc' = "returned" /\ exc' = exc
          /\ ax' = ax \cup {AxSimp(asm, gua, out.x)}
  /\ UNCHANGED <<op, c1, c2, opt, simp, asm, g1, g2, gua, nt, itf>>

(* ======================= next-state relation ============================= *)
Next ==
  \/ ComposeStart
  \/ pc = "refineA" /\ \E out \in VE \cup Ok(Outcomes(VarsOf(RefineA_S) \cup VarsOf(RefineA_Ctx), itf.forb, nt)) : RefineA(out)
  \/ pc = "simpA" /\ \E out \in VE \cup {O("skip", {})} \cup Ok(SUBSET asm) : SimpA(out)
  \/ pc = "relax1" /\ \E out \in VE \cup Ok(Outcomes(VarsOf(c1.g) \cup VarsOf(c2.g), itf.intv, nt)) : Relax1(out)
  \/ pc = "relax2" /\ \E out \in VE \cup Ok(Outcomes(VarsOf(c1.g) \cup VarsOf(c2.g), itf.intv, nt)) : Relax2(out)
  \/ pc = "relax3" /\ \E out \in VE \cup Ok(Outcomes(VarsOf(Relax3_S) \cup VarsOf(asm), itf.intv, nt)) : Relax3(out)
  \/ \E b \in BOOLEAN : QuotientStart(b)
  \/ pc = "relaxQA" /\ \E out \in VE \cup Ok(Outcomes(VarsOf(asm), RelaxQA_F, nt)) : RelaxQA(out)
  \/ pc = "refineG1" /\ \E out \in VE \cup Ok(Outcomes(VarsOf(c1.g) \cup VarsOf(c2.g) \cup VarsOf(c2.a), itf.intv, nt)) : RefineG1(out)
  \/ pc = "refineG2" /\ \E out \in VE \cup Ok(Outcomes(VarsOf(gua) \cup VarsOf(c1.a), itf.intv, nt)) : RefineG2(out)
  \/ MergeStart
  \/ pc = "ctor" /\ \E out \in VE \cup {O("invalid", {})} \cup Ok(SUBSET gua) : Ctor(out)
Spec == Init /\ [][Next]_vars

(* ======================= Horn entailment ================================= *)
RECURSIVE Close(_, _)
Close(known, rules) ==
  LET new == {r.head : r \in {q \in rules : q.body \subseteq known}} \ known IN
  IF new = {} THEN known ELSE Close(known \cup new, rules)
Rule(body, head) == [body |-> body, head |-> head]
AxRules(a) ==
  CASE a.k = "refine" -> {Rule(a.ctx \cup a.x, h) : h \in a.s}
    [] a.k = "relax"  -> {Rule(a.ctx \cup a.s, h) : h \in a.x}
                         \cup (IF Strong THEN {Rule(a.ctx \cup a.xc, h) : h \in a.keepc} ELSE {})
    [] a.k = "simp"   -> {Rule(a.ctx \cup a.x, h) : h \in a.s} \cup {Rule(a.ctx \cup a.s, h) : h \in a.x}
    [] a.k = "refinesT" -> {Rule(a.x, h) : h \in a.s}
RulesOf(axs) == UNION {AxRules(a) : a \in axs}
Honour(c) == {Rule(Tags(c.a), h) : h \in Tags(c.g)}
EntailsWith(axs, facts, extra, goal) == goal \subseteq Close(facts, RulesOf(axs) \cup extra)
Entails(facts, extra, goal) == EntailsWith(ax, facts, extra, goal)

(* ======================= the obligations ================================= *)
SoundComposeOf(axs, k1, k2, r) ==
   EntailsWith(axs, Tags(r.a), Honour(k1) \cup Honour(k2), Tags(k1.a) \cup Tags(k2.a) \cup Tags(r.g))
SoundQuotientOf(axs, k, k1, q) ==
   EntailsWith(axs, Tags(k.a), Honour(k1) \cup Honour(q), Tags(k1.a) \cup Tags(q.a) \cup Tags(k.g))
ExactMergeOf(axs, k1, k2, r) ==
   /\ EntailsWith(axs, Tags(r.a), {}, Tags(k1.a) \cup Tags(k2.a))
   /\ EntailsWith(axs, Tags(k1.a) \cup Tags(k2.a), {}, Tags(r.a))
   /\ EntailsWith(axs, Tags(r.a) \cup Tags(r.g), {}, Tags(k1.g) \cup Tags(k2.g))
   /\ EntailsWith(axs, Tags(k1.a) \cup Tags(k2.a) \cup Tags(k1.g) \cup Tags(k2.g), {}, Tags(r.g))
KeepsOf(axs, k1, k2, r) ==
   \A t \in k1.g \cup k2.g : t.vars \subseteq r.inv \cup r.outv =>
       EntailsWith(axs, Tags(r.a) \cup Tags(r.g), {}, {t.tag})
WellFormedC(r) ==
   /\ r.inv \cap r.outv = {} /\ VarsOf(r.a) \subseteq r.inv /\ VarsOf(r.g) \subseteq r.inv \cup r.outv
PrescribedItf(o, k1, k2, p, r) ==
   CASE o = "compose" ->
          /\ r.inv = (k1.inv \ k2.outv) \cup (k2.inv \ k1.outv)
          /\ r.outv = ((k1.outv \ k2.inv) \cup (k2.outv \ k1.inv)) \cup p
     [] o = "quotient" ->
          /\ r.inv = ((k1.inv \ k2.inv) \cup (k2.outv \ k1.outv)) \cup p
          /\ r.outv = (k1.outv \ k2.outv) \cup (k2.inv \ k1.inv)
     [] o = "merge" -> r.inv = k1.inv \cup k2.inv /\ r.outv = k1.outv \cup k2.outv
Meaningful(o, k1, k2, p) ==
   CASE o = "compose" ->
          /\ p \subseteq k1.outv \cup k2.outv
          /\ k1.outv \cap k2.outv = {}
          /\ ~(/\ k1.inv \cap k2.outv # {} /\ k2.inv \cap k1.outv # {}
               /\ (k2.outv \cap VarsOf(k1.a) # {} \/ k1.outv \cap VarsOf(k2.a) # {}))
     [] o = "quotient" -> (k1.outv \ k2.outv) \cap k2.inv = {} /\ p \subseteq k2.outv \cup k1.inv
     [] o = "merge" -> (k1.inv \cup k2.inv) \cap (k1.outv \cup k2.outv) = {}

(* ---- invariants of the design-level model ---- *)
Sound == (pc = "returned" /\ op = "compose") => SoundComposeOf(ax, c1, c2, res)
SoundQ == (pc = "returned" /\ op = "quotient") => SoundQuotientOf(ax, c1, c2, res)
ExactM == (pc = "returned" /\ op = "merge") => ExactMergeOf(ax, c1, c2, res)
Keeps == (pc = "returned" /\ op \in {"compose", "merge"}) => KeepsOf(ax, c1, c2, res)
WF == pc = "returned" => WellFormedC(res) /\ PrescribedItf(op, c1, c2, opt, res) /\ Meaningful(op, c1, c2, opt)
ExcOK == pc = "raised" =>
   /\ exc \in {"IncompatibleArgsError", "ValueError"}
   /\ (~Meaningful(op, c1, c2, opt) => exc = "IncompatibleArgsError")
Terminal == pc \in {"returned", "raised"}
=====================================================================
