SPECIFICATION TSpec
CONSTANTS
  Vars = {"x", "y", "z", "u", "v", "w"}
  MaxG = 2
  Strong = FALSE
  Ops = {"compose", "quotient", "merge"}
CONSTRAINT Report
CHECK_DEADLOCK FALSE
