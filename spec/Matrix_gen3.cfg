SPECIFICATION Spec
CONSTANTS
  VarIds = {1, 2, 3}
  Coefs <- CoefSet
  Consts = {3}
  MaxKeys = 2
  MaxTerms = 2
  MaxCtx = 1
  RowByKeyOrder = FALSE
  Grid = {0}
CONSTRAINT Emit
CHECK_DEADLOCK FALSE
