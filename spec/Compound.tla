---------------------------- MODULE Compound ----------------------------
(***************************************************************************)
(* C17: a nested constraint list is a UNION of polyhedra (its              *)
(* alternatives).  Membership, the pairwise-intersection merge of compound *)
(* contracts, the <= test and the disjointness requirement on assumption   *)
(* alternatives, specified by their meaning on points and decided from     *)
(* hints that TLC checks (witness points, box-free Farkas certificates).   *)
(***************************************************************************)
EXTENDS LP
Set(s) == Rng(s)

InAlt(alt, q, d) == AllHoldAt(alt, q, d)
InUnion(alts, q, d) == \E i \in DOMAIN alts : InAlt(alts[i], q, d)
\* clearly outside the union: every alternative has a row broken by more than tol
OutOfUnion(alts, q, d) == \A i \in DOMAIN alts : \E j \in DOMAIN alts[i] : BrokenAt(alts[i][j], q, d)
AltVars(alts) == UNION {RowsVars(alts[i]) : i \in DOMAIN alts}

(* membership *)
CContainsJudge(e) ==
  IF AltVars(e.alts) \ DOMAIN e.q # {} THEN (IF e.ans = "ValueError" THEN <<"ok", "unassigned">> ELSE <<"unjudged", "unassigned">>)
  ELSE IF e.ans \notin {"true", "false"} THEN <<"violation", "exception:" \o e.ans>>
  ELSE IF InUnion(e.alts, e.q, e.d) = (e.ans = "true") THEN <<"ok", e.ans>>
  ELSE <<"violation", "membership">>

(* disjointness of assumption alternatives: ValueError exactly when two alternatives share a behaviour *)
PairKey(i, j) == ToString(i) \o "." \o ToString(j)
Pairs(n) == {<<i, j>> : i \in 1..n, j \in 1..n} \cap {p \in (1..n) \X (1..n) : p[1] < p[2]}
CConstructJudge(e) ==
  LET n == Len(e.alts)
      overlap(p) == LET h == e.hints[PairKey(p[1], p[2])] IN
                    h.kind = "witness" /\ InBox(Rng(e.names), h.q, h.d) /\ InAlt(e.alts[p[1]] \o e.alts[p[2]], h.q, h.d)
      disjoint(p) == LET h == e.hints[PairKey(p[1], p[2])] IN
                     h.kind = "infeasible" /\ NoBox(e.alts[p[1]] \o e.alts[p[2]], h) /\ InfeasOK(e.alts[p[1]] \o e.alts[p[2]], e.names, h) IN
  IF e.ans \notin {"ok", "ValueError"} THEN <<"violation", "exception:" \o e.ans>>
  ELSE IF \E p \in Pairs(n) : PairKey(p[1], p[2]) \notin DOMAIN e.hints THEN <<"malformed", "hints">>
  ELSE IF \E p \in Pairs(n) : overlap(p) THEN (IF e.ans = "ValueError" THEN <<"ok", "overlap-rejected">> ELSE <<"violation", "overlap-accepted">>)
  ELSE IF \A p \in Pairs(n) : disjoint(p) THEN (IF e.ans = "ok" THEN <<"ok", "disjoint-accepted">> ELSE <<"violation", "disjoint-rejected">>)
  ELSE <<"unjudged", "open">>

(* merge: the union of the result alternatives is the intersection of the operands' unions *)
\* a point refuting it (hint), evaluated by TLC
MergeRefutedAt(A, B, R, q, d) ==
  \/ (InUnion(A, q, d) /\ InUnion(B, q, d) /\ OutOfUnion(R, q, d))
  \/ (InUnion(R, q, d) /\ (OutOfUnion(A, q, d) \/ OutOfUnion(B, q, d)))
\* certificates: every result alternative lies in some pairwise intersection, every non-empty pairwise
\* intersection lies in some result alternative, every result alternative is non-empty
RowsImplied(hyp, rows, nameSeq, hs) ==
  Len(hs) = Len(rows) /\ \A i \in DOMAIN rows : hs[i].kind = "cert" /\ NoBox(hyp, hs[i]) /\ FarkasExact(hyp, nameSeq, rows[i], hs[i])
MergeSideOK(A, B, R, nameSeq, h) ==
  /\ Len(h.res) = Len(R)
  /\ \A k \in DOMAIN R :
       /\ h.res[k].i \in DOMAIN A /\ h.res[k].j \in DOMAIN B
       /\ RowsImplied(R[k], A[h.res[k].i] \o B[h.res[k].j], nameSeq, h.res[k].certs)
       /\ h.res[k].point.kind = "witness" /\ InAlt(R[k], h.res[k].point.q, h.res[k].point.d)        \* non-empty
  /\ \A i \in DOMAIN A, j \in DOMAIN B :
       LET key == PairKey(i, j) IN
       /\ key \in DOMAIN h.pairs
       /\ \/ (h.pairs[key].kind = "infeasible" /\ NoBox(A[i] \o B[j], h.pairs[key].cert) /\ InfeasOK(A[i] \o B[j], nameSeq, h.pairs[key].cert))
          \/ (h.pairs[key].kind = "covered" /\ h.pairs[key].k \in DOMAIN R
              /\ RowsImplied(A[i] \o B[j], R[h.pairs[key].k], nameSeq, h.pairs[key].certs))
CMergeJudge(e) ==
  IF e.exc # "none" THEN (IF e.exc = "ValueError" THEN <<"ok", "declined">> ELSE <<"violation", "exception:" \o e.exc>>)
  ELSE IF Set(e.res.inv) # Set(e.c1.inv) \cup Set(e.c2.inv) \/ Set(e.res.outv) # Set(e.c1.outv) \cup Set(e.c2.outv) THEN <<"violation", "merge:interface">>
  ELSE IF (e.hints.wa.kind = "witness" /\ MergeRefutedAt(e.c1.a, e.c2.a, e.res.a, e.hints.wa.q, e.hints.wa.d)) THEN <<"violation", "merge:assumptions">>
  ELSE IF (e.hints.wg.kind = "witness" /\ MergeRefutedAt(e.c1.g, e.c2.g, e.res.g, e.hints.wg.q, e.hints.wg.d)) THEN <<"violation", "merge:guarantees">>
  ELSE IF MergeSideOK(e.c1.a, e.c2.a, e.res.a, e.names, e.hints.a) /\ MergeSideOK(e.c1.g, e.c2.g, e.res.g, e.names, e.hints.g) THEN <<"ok", "exact-intersection">>
  ELSE <<"unjudged", "open">>

(* <= answers True only if the left union is contained in the right one *)
CLeJudge(e) ==
  IF e.ans \notin {"true", "false"} THEN <<"violation", "exception:" \o e.ans>>
  ELSE IF e.ans = "true" /\ e.hints.wit.kind = "witness" /\ InBox(Rng(e.names), e.hints.wit.q, e.hints.wit.d)
          /\ InUnion(e.L, e.hints.wit.q, e.hints.wit.d) /\ OutOfUnion(e.R, e.hints.wit.q, e.hints.wit.d)
       THEN <<"violation", "le-true-but-not-contained">>
  ELSE <<"ok", e.ans>>
=====================================================================
