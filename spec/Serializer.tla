---------------------------- MODULE Serializer ----------------------------
(***************************************************************************)
(* C10, design level: the string printer of constraint lists               *)
(* (serializer.polyhedral_term_list_to_strings, driven by to_str_list) as  *)
(* an automaton over the remaining list: take the first term, look for the *)
(* first LATER term that is its opposite (same variables, negated          *)
(* coefficients) and fold the pair into  "lhs = c"  (constants negated) or *)
(* "|lhs| <= c"  (constants equal); otherwise print "lhs <= c".            *)
(* Abstractly a term is [id, sg, c]: left side `id` with sign sg, bound c. *)
(* Law: the multiset of rows DENOTED by the emitted strings equals the     *)
(* input multiset -- nothing dropped, nothing invented, whatever the       *)
(* positions of the partners.  Checked by TLC over all short lists.        *)
(***************************************************************************)
EXTENDS Integers, Sequences, FiniteSets, TLC, Json
CONSTANTS Ids, Consts, MaxLen
ConstsDef == -1..1
Terms == [id : Ids, sg : {1, -1}, c : Consts]
Opposite(t, u) == t.id = u.id /\ t.sg = -u.sg

VARIABLES input, rest, out
vars == <<input, rest, out>>
Lists == UNION {[1..n -> Terms] : n \in 0..MaxLen}
Init == input \in Lists /\ rest = input /\ out = <<>>

Remove(s, i) == SubSeq(s, 1, i - 1) \o SubSeq(s, i + 1, Len(s))
\* index (in rest) of the first later term that folds with the head, 0 if none; code order of the rules
FoldIdx ==
  LET tp == Head(rest)
      cand == {i \in 2..Len(rest) : Opposite(tp, rest[i]) /\ (tp.c = -rest[i].c \/ tp.c = rest[i].c)} IN
  IF cand = {} THEN 0 ELSE CHOOSE i \in cand : \A j \in cand : i <= j
Emit ==
  /\ rest # <<>>
  /\ LET tp == Head(rest)  i == FoldIdx IN
     IF i = 0 THEN out' = Append(out, [kind |-> "le", t |-> tp]) /\ rest' = Tail(rest)
     ELSE /\ out' = Append(out, [kind |-> IF tp.c = -rest[i].c THEN "eq" ELSE "abs", t |-> tp])
          /\ rest' = Tail(Remove(rest, i))
  /\ UNCHANGED input
Spec == Init /\ [][Emit]_vars

\* rows denoted by one emitted string
Denote(o) ==
  CASE o.kind = "le" -> <<o.t>>
    [] o.kind = "eq" -> <<o.t, [id |-> o.t.id, sg |-> -o.t.sg, c |-> -o.t.c]>>
    [] o.kind = "abs" -> <<o.t, [id |-> o.t.id, sg |-> -o.t.sg, c |-> o.t.c]>>
RECURSIVE Flat(_, _)
Flat(os, i) == IF i > Len(os) THEN <<>> ELSE Denote(os[i]) \o Flat(os, i + 1)
Count(s, x) == Cardinality({i \in DOMAIN s : s[i] = x})
BagEq(s, t) == Len(s) = Len(t) /\ \A x \in Terms : Count(s, x) = Count(t, x)
\* at every moment: what was emitted plus what remains denotes exactly the input
RoundTrip == BagEq(Flat(out, 1) \o rest, input)
Done == rest = <<>> => BagEq(Flat(out, 1), input)

(* ---- generator mode: the whole output for every input list, replayed into the real printer by lib/printdrv.py ---- *)
FoldIdxOf(r) ==
  LET tp == Head(r)
      cand == {i \in 2..Len(r) : Opposite(tp, r[i]) /\ (tp.c = -r[i].c \/ tp.c = r[i].c)} IN
  IF cand = {} THEN 0 ELSE CHOOSE i \in cand : \A j \in cand : i <= j
RECURSIVE Run(_)
Run(r) ==
  IF r = <<>> THEN <<>>
  ELSE LET tp == Head(r)  i == FoldIdxOf(r) IN
       IF i = 0 THEN <<[kind |-> "le", t |-> tp]>> \o Run(Tail(r))
       ELSE <<[kind |-> IF tp.c = -r[i].c THEN "eq" ELSE "abs", t |-> tp]>> \o Run(Tail(Remove(r, i)))
GenSpec == Init /\ [][UNCHANGED vars]_vars
EmitCase == PrintT(<<"CASE", ToJson([input |-> input, out |-> Run(input)])>>)
=====================================================================
