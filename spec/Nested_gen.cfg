SPECIFICATION Spec
CONSTANTS
  Lo = 0
  Hi = 3
  MaxAlts = 2
CONSTRAINT Emit
CHECK_DEADLOCK FALSE
