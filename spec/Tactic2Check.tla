--------------------------- MODULE Tactic2Check ---------------------------
(* Exhaustive check of Tactic2!T2 with the TRUE answer of its LP, over every term and every context of at most MaxCtx rows
   that bound one variable each (coefficients Ks, constants Cs).  The extremal points of such contexts have coordinates c/k,
   half-integers for |k| <= 2, so a sweep of the half-integer grid finds the true optimum independently of the analytic LP
   answer that is handed to T2. *)
EXTENDS Tactic2
CONSTANTS Elim, TermCo, Ks, Cs, MaxCtx
VARIABLES term, ctx, refine
KsDef == {-2, -1, 1, 2}
KsSmall == {-1, 1, 2}
CsDef == {-1, 0, 1}
CsSmall == {0, 1}
TermCoDef == {-1, 0, 1, 2}
TermCoSmall == {-1, 0, 1}
Unit(u, k) == [w \in V |-> IF w = u THEN k ELSE 0]
Rows == {T(Unit(u, k), c, 1) : u \in V, k \in Ks, c \in Cs}
Terms == {t \in [co : [V -> TermCo], c : {0, 1}, den : {1}] : TermVars(t) \cap Elim # {} /\ \A u \in V \ Elim : t.co[u] \in {-1, 0, 1}}
Ctxs == UNION {[1..n -> Rows] : n \in 0..MaxCtx}
Init == term \in Terms /\ ctx \in Ctxs /\ refine \in BOOLEAN
Next == UNCHANGED <<term, ctx, refine>>
Spec == Init /\ [][Next]_<<term, ctx, refine>>

(* ---- the true LP answer, analytically (bounds in half units) --------------- *)
rows == LPRows(term, ctx, Elim)
Var1(r) == CHOOSE u \in V : r.co[u] # 0
Ub2(u) == {(2 * rows[i].c) \div rows[i].co[u] : i \in {j \in DOMAIN rows : Var1(rows[j]) = u /\ rows[j].co[u] > 0}}    \* exact: |k| <= 2
Lb2(u) == {(2 * rows[i].c) \div rows[i].co[u] : i \in {j \in DOMAIN rows : Var1(rows[j]) = u /\ rows[j].co[u] < 0}}
Min(S) == CHOOSE x \in S : \A y \in S : x <= y
Max(S) == CHOOSE x \in S : \A y \in S : x >= y
Used == UNION {TermVars(rows[i]) : i \in DOMAIN rows}
Infeasible == \E u \in Used : Ub2(u) # {} /\ Lb2(u) # {} /\ Max(Lb2(u)) > Min(Ub2(u))
obj == Objective(term, refine)
Unbounded == \E u \in Used : (obj[u] > 0 /\ Lb2(u) = {}) \/ (obj[u] < 0 /\ Ub2(u) = {})
RECURSIVE Sum2(_)
Sum2(W) == IF W = {} THEN 0 ELSE LET u == CHOOSE w \in W : TRUE IN
           (IF obj[u] > 0 THEN obj[u] * Max(Lb2(u)) ELSE IF obj[u] < 0 THEN obj[u] * Min(Ub2(u)) ELSE 0) + Sum2(W \ {u})
TrueLP == IF Infeasible THEN [st |-> 2, num |-> 0, den |-> 1]
          ELSE IF Unbounded THEN [st |-> 3, num |-> 0, den |-> 1]
          ELSE [st |-> 0, num |-> Sum2(Used), den |-> 2]
Out == T2(term, ctx, Elim, refine, TrueLP)

(* ---- the true optimum of the eliminated part, by sweeping the half-integer grid -------------- *)
Grid2 == [Elim -> -4..4]                                      \* twice the coordinates
RowHolds2(r, p2) == LET u == Var1(r) IN r.co[u] * p2[u] <= 2 * r.c
Feas2 == {p2 \in Grid2 : \A i \in DOMAIN rows : RowHolds2(rows[i], p2)}
RECURSIVE ElimPart2(_, _)
ElimPart2(p2, W) == IF W = {} THEN 0 ELSE LET u == CHOOSE w \in W : TRUE IN term.co[u] * p2[u] + ElimPart2(p2, W \ {u})
Vals2 == {ElimPart2(p2, Elim) : p2 \in Feas2}                 \* twice the values of the eliminated part on feasible grid points
BoundedAbove == \A u \in Elim \cap TermVars(term) : (term.co[u] > 0 => Ub2(u) # {}) /\ (term.co[u] < 0 => Lb2(u) # {})
BoundedBelow == \A u \in Elim \cap TermVars(term) : (term.co[u] > 0 => Lb2(u) # {}) /\ (term.co[u] < 0 => Ub2(u) # {})
NonVacuous == \E u \in V \ Elim : term.co[u] # 0
\* refining: the new bound is  c - max(eliminated part)  -- exactly; relaxing:  c - min
Exact ==
  (Out.kind = "row" /\ NonVacuous) =>
     /\ Feas2 # {}
     /\ IF refine THEN BoundedAbove /\ 2 * Out.row.c * term.den = (2 * term.c - Max(Vals2) * term.den) * Out.row.den
                  ELSE BoundedBelow /\ 2 * Out.row.c * term.den = (2 * term.c - Min(Vals2) * term.den) * Out.row.den
     /\ \A u \in V : Out.row.co[u] * term.den = (IF u \in Elim THEN 0 ELSE term.co[u]) * Out.row.den
Vacuity == (Out.kind = "row" /\ ~NonVacuous) => SameTerm(Out.row, term)
\* it declines exactly when there is nothing to optimise over, the rows miss a variable, or the LP has no finite optimum
Declines ==
  (Out.kind = "error") <=> (Len(rows) = 0 \/ ~((Elim \cap TermVars(term)) \subseteq Used) \/ Infeasible \/ Unbounded)
\* vacuity guards (must be violated): the tactic returns a changed row when refining and when relaxing
NeverRefines == ~(Out.kind = "row" /\ NonVacuous /\ refine)
NeverRelaxes == ~(Out.kind = "row" /\ NonVacuous /\ ~refine)
=====================================================================
