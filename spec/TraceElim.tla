-------------------------- MODULE TraceElim --------------------------
(* Trace validation for C04: each trace is a sequence of elimination calls recorded from the
   real PolyhedralTermList.elim_vars_by_refining / elim_vars_by_relaxing. *)
EXTENDS Elim, Json, IOUtils
Traces == ndJsonDeserialize(IOEnv.TRACE_FILE)
VARIABLES tid, l, last
vars == <<tid, l, last>>
Init == tid \in 1..Len(Traces) /\ l = 0 /\ last = <<>>
Step == /\ l < Len(Traces[tid].ev)
        /\ l' = l + 1
        /\ last' = <<(<<"elim">> \o ElimJudge(Traces[tid].ev[l + 1]))>>
        /\ UNCHANGED tid
Spec == Init /\ [][Step]_vars
Report == l > 0 => \A i \in DOMAIN last : PrintT(<<"VERDICT", Traces[tid].id, l, last[i][1], last[i][2], last[i][3]>>)
=====================================================================
