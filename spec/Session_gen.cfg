SPECIFICATION Spec
CONSTANTS
  MaxLen = 1000
  NSeed = 6
  EmitLen = 24
  NParam = 4
CONSTRAINT Emit
CHECK_DEADLOCK FALSE
