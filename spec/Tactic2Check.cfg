SPECIFICATION Spec
CONSTANTS
  V = {"y1", "y2", "z"}
  Elim = {"y1", "y2"}
  TermCo <- TermCoDef
  Ks <- KsDef
  Cs <- CsDef
  MaxCtx = 2
  NoNegation = FALSE
  KeepSelf = FALSE
INVARIANT Exact
INVARIANT Vacuity
INVARIANT Declines
CHECK_DEADLOCK FALSE
