--------------------------- MODULE TraceLPAlgos ---------------------------
(***************************************************************************)
(* Algorithm-level conformance (drift tier) of the real refines /          *)
(* is_empty / simplify with LPAlgos.tla: every linprog call made by the    *)
(* library on axis-parallel inputs is recorded by an out-of-tree wrapper;  *)
(* the recorded run must be a behaviour of the model in which the          *)
(* environment gave exactly the recorded answers (so each recorded answer  *)
(* must be one the environment assumption allows), and the terminal state  *)
(* must agree with the recorded result.                                    *)
(***************************************************************************)
EXTENDS LPAlgos, Json, IOUtils
Traces == ndJsonDeserialize(IOEnv.TRACE_FILE)
VARIABLES tid
tvars == <<vars, tid>>
P == Traces[tid]
ToRow(j) == [v |-> j.v, s |-> j.s, c |-> j.c]
ToRows(js) == [k \in DOMAIN js |-> ToRow(js[k])]
TInit ==
  /\ tid \in 1..Len(Traces)
  /\ alg = P.alg /\ L = ToRows(P.L) /\ R = ToRows(P.R)
  /\ pc = "start" /\ i = 1 /\ kept = L /\ ans = "none" /\ calls = <<>>
\* the call just logged by the model is the next recorded call, with the recorded answer
Matches(m, r) == m.kind = r.kind /\ m.n = r.n /\ m.st = r.st /\ m.fun = r.fun
                 /\ (m.kind = "max" => m.row.v = r.v /\ m.row.s = r.s)
TNext ==
  /\ Next
  /\ Len(calls') <= Len(P.calls)
  /\ (Len(calls') > Len(calls) => Matches(calls'[Len(calls')], P.calls[Len(calls')]))
  /\ UNCHANGED tid
TSpec == TInit /\ [][TNext]_tvars
Agrees == /\ Len(calls) = Len(P.calls) /\ ans = P.ans
          /\ (alg = "reduce" /\ ans = "returned" => kept = ToRows(P.kept))
Report == (pc = "done") => PrintT(<<"VERDICT", P.id, 1, "conform", IF Agrees THEN "ok" ELSE "drift", ans>>)
=====================================================================
