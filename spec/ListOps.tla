----------------------------- MODULE ListOps -----------------------------
(***************************************************************************)
(* pacti/utils/lists.py and the list-valued operators built on it          *)
(* (TermList.__or__ / __and__ / __sub__, get_terms_with_vars, the          *)
(* interface formulas of compose / quotient / merge): order-preserving     *)
(* set operations on lists.                                                *)
(*                                                                         *)
(*   Inter(a, b)  the elements of a that occur in b, in a's order, with    *)
(*                a's repetitions                                          *)
(*   Diff(a, b)   the elements of a that do not occur in b                 *)
(*   Union(a, b)  a followed by the elements of b that do not occur in a   *)
(*                (b's own repetitions are kept)                           *)
(*   SameElems    equality as sets                                         *)
(*                                                                         *)
(* TLC enumerates EVERY pair of lists up to length MaxLen over Elems, and  *)
(* checks the algebraic laws the rest of the specification relies on; in   *)
(* generator mode (Emit) it prints each pair with the four results, and    *)
(* lib/listdrv.py replays all of them into the real functions -- on plain  *)
(* values, on Var objects and, through the TermList operators, on terms    *)
(* (where "the same element" is exact term equality: two terms whose       *)
(* coefficients differ in the sixth digit are different elements).         *)
(***************************************************************************)
EXTENDS Integers, Sequences, FiniteSets, TLC, Json
CONSTANTS Elems, MaxLen
Rng(s) == {s[i] : i \in DOMAIN s}
Inter(a, b) == SelectSeq(a, LAMBDA x : x \in Rng(b))
Diff(a, b) == SelectSeq(a, LAMBDA x : x \notin Rng(b))
Union(a, b) == a \o SelectSeq(b, LAMBDA x : x \notin Rng(a))
SameElems(a, b) == Rng(a) = Rng(b)

Lists == UNION {[1..n -> Elems] : n \in 0..MaxLen}
VARIABLES a, b
Init == a \in Lists /\ b \in Lists
Next == UNCHANGED <<a, b>>
Spec == Init /\ [][Next]_<<a, b>>

NoDup(s) == \A i, j \in DOMAIN s : i # j => s[i] # s[j]
Laws ==
  /\ Rng(Inter(a, b)) = Rng(a) \cap Rng(b)
  /\ Rng(Diff(a, b)) = Rng(a) \ Rng(b)
  /\ Rng(Union(a, b)) = Rng(a) \cup Rng(b)
  /\ (NoDup(a) /\ NoDup(b)) => (NoDup(Inter(a, b)) /\ NoDup(Diff(a, b)) /\ NoDup(Union(a, b)))      \* interface lists stay duplicate-free
  /\ Inter(a, b) \o <<>> = SelectSeq(a, LAMBDA x : x \notin Rng(Diff(a, b)))                        \* a splits into Inter and Diff
  /\ Len(Inter(a, b)) + Len(Diff(a, b)) = Len(a)
  /\ SameElems(a, b) <=> (Diff(a, b) = <<>> /\ Diff(b, a) = <<>>)                                    \* lists_equal as the code computes it
  /\ Union(a, <<>>) = a /\ Diff(a, <<>>) = a /\ Inter(a, <<>>) = <<>>
Emit == PrintT(<<"PAIR", ToJson([a |-> a, b |-> b, inter |-> Inter(a, b), diff |-> Diff(a, b), union |-> Union(a, b), same |-> SameElems(a, b)])>>)
=====================================================================
