------------------------- MODULE TraceAlgebra -------------------------
(***************************************************************************)
(* Binding of Algebra.tla to the real pacti.iocontract.IoContract.         *)
(*                                                                         *)
(* The real compose_tactics / quotient_tactics / merge are run over a      *)
(* scripted symbolic TermList (lib/symdrv.py); every outcome path of the   *)
(* primitives is enumerated depth first and recorded: operands, options,   *)
(* the sequence of primitive calls (kind, operand tags, context tags,      *)
(* eliminated variables, chosen outcome) and the terminal result.          *)
(*                                                                         *)
(* Two judgements per recorded path:                                       *)
(*  obl     (verdict tier, C05/C06): from the LOG ALONE -- assume every    *)
(*          recorded primitive call met its documented contract (one Horn  *)
(*          axiom per call) and decide whether the recorded result is      *)
(*          entailed / well formed / the exception class allowed.          *)
(*  conform (drift tier): the recorded path is a behaviour of Algebra.tla: *)
(*          each logged call is the model's pending call (same operand,    *)
(*          context, eliminated set), the logged outcome is fed to the     *)
(*          model action, and the terminal states coincide.                *)
(***************************************************************************)
EXTENDS Algebra, Sequences, Json, IOUtils
Traces == ndJsonDeserialize(IOEnv.TRACE_FILE)

SetOf(s) == {s[i] : i \in DOMAIN s}
ToTerm(j) == T(j.tag, SetOf(j.vars))
ToTerms(js) == {ToTerm(js[i]) : i \in DOMAIN js}
ToContract(j) == Contract(SetOf(j.inv), SetOf(j.outv), ToTerms(j.a), ToTerms(j.g))

(* ---------------- obligations from the log alone ------------------------ *)
AxOfCall(cl) ==
  LET s == SetOf(cl.s)  ctx == SetOf(cl.ctx)  x == {cl.x[i].tag : i \in DOMAIN cl.x}
      F == SetOf(cl.elim)
      clean == {cl.x[i].tag : i \in {j \in DOMAIN cl.x : SetOf(cl.x[j].vars) \cap F = {}}} IN
  CASE cl.k = "refine" -> [k |-> "refine", ctx |-> ctx, s |-> s, x |-> x, xc |-> {}, keepc |-> {}]
    [] cl.k = "relax" -> [k |-> "relax", ctx |-> ctx, s |-> s, x |-> x, xc |-> clean, keepc |-> {}]
    [] cl.k = "simp" -> [k |-> "simp", ctx |-> ctx, s |-> s, x |-> x, xc |-> {}, keepc |-> {}]
    [] cl.k = "refines" -> [k |-> "refinesT", ctx |-> {}, s |-> s, x |-> x, xc |-> {}, keepc |-> {}]
AxsOfLog(calls) == {AxOfCall(calls[i]) : i \in {j \in DOMAIN calls : calls[j].kind \in {"ok", "true"}}}

NoDupSeq(s) == \A i, j \in DOMAIN s : s[i] = s[j] => i = j
\* C06, operations without primitive calls: constructor validation, refinement across
\* interfaces, renaming, copying (interface lists are sequences here: duplicates matter)
ItfJudge(p) ==
  LET k1 == ToContract(p.c1)  k2 == ToContract(p.c2)
      rejected == p.exc = "IncompatibleArgsError"
      r == ToContract(p.res) IN
  CASE p.op = "construct" ->
         LET valid == /\ NoDupSeq(p.c1.inv) /\ NoDupSeq(p.c1.outv) /\ WellFormedC(k1) IN
         IF ~valid THEN (IF rejected THEN <<"ok", "rejected">> ELSE <<"violation", "itf:ill-formed-arguments-accepted:" \o p.exc>>)
         ELSE IF p.exc = "ValueError" THEN <<"ok", "raised">>
         ELSE IF p.exc # "none" THEN <<"violation", "itf:valid-arguments-rejected:" \o p.exc>>
         ELSE IF r.inv = k1.inv /\ r.outv = k1.outv /\ WellFormedC(r) /\ NoDupSeq(p.res.inv) /\ NoDupSeq(p.res.outv)
              THEN <<"ok", "constructed">> ELSE <<"violation", "itf:constructed-interface">>
    [] p.op = "refines" ->
         LET shares == k1.inv = k2.inv /\ k1.outv = k2.outv IN
         IF ~shares THEN (IF rejected THEN <<"ok", "rejected">> ELSE <<"violation", "itf:refinement-across-interfaces:" \o p.exc>>)
         ELSE IF p.exc = "none" THEN <<"ok", "compared">> ELSE <<"violation", "itf:same-interface-rejected:" \o p.exc>>
    [] p.op = "copy" ->
         IF p.exc = "none" /\ r.inv = k1.inv /\ r.outv = k1.outv /\ WellFormedC(r) THEN <<"ok", "copied">>
         ELSE IF p.exc = "ValueError" THEN <<"ok", "raised">> ELSE <<"violation", "itf:copy">>
    [] p.op = "rename" ->
         LET s == p.opt[1]  t == p.opt[2]
             ren(S) == IF s \in S THEN (S \ {s}) \cup {t} ELSE S
             clash == s # t /\ ((s \in k1.inv /\ t \in k1.outv) \/ (s \in k1.outv /\ t \in k1.inv)) IN
         IF clash THEN (IF rejected THEN <<"ok", "rejected">> ELSE <<"violation", "itf:rename-clash-accepted:" \o p.exc>>)
         ELSE IF p.exc = "ValueError" THEN <<"ok", "raised">>
         ELSE IF p.exc # "none" THEN <<"violation", "itf:rename-rejected:" \o p.exc>>
         ELSE IF r.inv = ren(k1.inv) /\ r.outv = ren(k1.outv) /\ WellFormedC(r) /\ NoDupSeq(p.res.inv) /\ NoDupSeq(p.res.outv)
              THEN <<"ok", "renamed">> ELSE <<"violation", "itf:renamed-interface">>

\* the operands, re-inspected after the call, are what they were (lists compared as recorded)
OperandsIntact(p) == p.c1_after = p.c1 /\ p.c2_after = p.c2
OblJudge(p) ==
  LET k1 == ToContract(p.c1)  k2 == ToContract(p.c2)  o == SetOf(p.opt) IN
  IF ~OperandsIntact(p) THEN <<"violation", "itf:operand-changed">>
  ELSE IF p.op \in {"construct", "refines", "copy", "rename"} THEN ItfJudge(p)
  ELSE IF p.exc # "none"
  THEN IF p.exc \notin {"IncompatibleArgsError", "ValueError"} THEN <<"violation", "exception:" \o p.exc>>
       ELSE IF ~Meaningful(p.op, k1, k2, o) /\ p.exc # "IncompatibleArgsError" THEN <<"violation", "itf:wrong-rejection">>
       ELSE <<"ok", "raised">>
  ELSE LET r == ToContract(p.res)  axs == AxsOfLog(p.calls) IN
       IF ~Meaningful(p.op, k1, k2, o) THEN <<"violation", "itf:meaningless-request-accepted">>
       ELSE IF ~WellFormedC(r) THEN <<"violation", "itf:ill-formed-result">>
       ELSE IF ~PrescribedItf(p.op, k1, k2, o, r) THEN <<"violation", "itf:interface">>
       ELSE IF p.op = "compose" /\ ~SoundComposeOf(axs, k1, k2, r) THEN <<"violation", "sound:compose">>
       ELSE IF p.op = "quotient" /\ ~SoundQuotientOf(axs, k1, k2, r) THEN <<"violation", "sound:quotient">>
       ELSE IF p.op = "merge" /\ ~ExactMergeOf(axs, k1, k2, r) THEN <<"violation", "exact:merge">>
       ELSE <<"ok", "entailed">>

(* ---------------- conformance: the path is a behaviour of Algebra.tla --- *)
VARIABLES tid, l
tvars == <<vars, tid, l>>
P == Traces[tid]
Logged == P.calls[l + 1]
HasNext == l < Len(P.calls)
LogOut == IF Logged.kind = "ve" THEN O("ve", {}) ELSE O("ok", ToTerms(Logged.x))
\* the logged call is the model's pending call
IsCall(kind, S, ctx, F) ==
  /\ HasNext /\ Logged.k = kind
  /\ SetOf(Logged.s) = Tags(S) /\ SetOf(Logged.ctx) = Tags(ctx) /\ SetOf(Logged.elim) = F

TInit ==
  /\ tid \in 1..Len(Traces) /\ l = 0
  /\ op = P.op /\ c1 = ToContract(P.c1) /\ c2 = ToContract(P.c2) /\ opt = SetOf(P.opt) /\ simp = P.simp
  /\ pc = "start" /\ asm = {} /\ g1 = {} /\ g2 = {} /\ gua = {} /\ res = NoContract
  /\ exc = "none" /\ ax = {} /\ nt = 10
  /\ itf = [intv |-> {}, inv |-> {}, outv |-> {}, forb |-> {}]

Consume == l' = l + 1 /\ UNCHANGED tid
Silent == UNCHANGED <<tid, l>>
TNext ==
  \/ op \in {"construct", "refines", "copy", "rename"} /\ pc = "start" /\ pc' = "returned" /\ Silent
       /\ UNCHANGED <<op, c1, c2, opt, simp, asm, g1, g2, gua, res, exc, ax, nt, itf>>
  \/ ComposeStart /\ Silent
  \/ MergeStart /\ Silent
  \/ /\ pc = "start" /\ op = "quotient"
     /\ IF (c1.outv \ c2.outv) \cap c2.inv # {} \/ opt \ (c2.outv \cup c1.inv) # {}
        THEN QuotientStart(TRUE) /\ Silent        \* rejected before any primitive call
        ELSE /\ HasNext /\ Logged.k = "refines" /\ SetOf(Logged.s) = Tags(c2.a)
             /\ QuotientStart(Logged.kind = "true") /\ Consume
  \/ pc = "refineA" /\ IsCall("refine", RefineA_S, RefineA_Ctx, itf.forb) /\ RefineA(LogOut) /\ Consume
  \/ pc = "simpA" /\ ~simp /\ SimpA(O("skip", {})) /\ Silent
  \/ pc = "simpA" /\ simp /\ IsCall("simp", asm, {}, {}) /\ SimpA(LogOut) /\ Consume
  \/ pc = "relax1" /\ IsCall("relax", c1.g, c2.g, itf.intv) /\ Relax1(LogOut) /\ Consume
  \/ pc = "relax2" /\ IsCall("relax", c2.g, c1.g, itf.intv) /\ Relax2(LogOut) /\ Consume
  \/ pc = "relax3" /\ IsCall("relax", Relax3_S, asm, itf.intv) /\ Relax3(LogOut) /\ Consume
  \/ pc = "relaxQA" /\ IsCall("relax", asm, {}, RelaxQA_F) /\ RelaxQA(LogOut) /\ Consume
  \/ pc = "refineG1" /\ IsCall("refine", c1.g, c2.g \cup c2.a, itf.intv) /\ RefineG1(LogOut) /\ Consume
  \/ pc = "refineG2" /\ IsCall("refine", gua, c1.a, itf.intv) /\ RefineG2(LogOut) /\ Consume
  \/ pc = "ctor" /\ ~CtorValid /\ Ctor(O("invalid", {})) /\ Silent
  \/ pc = "ctor" /\ CtorValid /\ IsCall("simp", gua, asm, {}) /\ Ctor(LogOut) /\ Consume
TSpec == TInit /\ [][TNext]_tvars

\* the terminal state of the model coincides with the recorded outcome
Agrees ==
  /\ l = Len(P.calls)
  /\ \/ (pc = "raised" /\ P.exc = exc)
     \/ (pc = "returned" /\ P.exc = "none" /\ res = ToContract(P.res))
\* one line per reached state; the harness keeps the deepest one per path
Report ==
  /\ (l = 0 /\ pc = "start") => PrintT(<<"VERDICT", P.id, 0, "obl", OblJudge(P)[1], OblJudge(P)[2]>>)
  /\ Terminal => PrintT(<<"VERDICT", P.id, 1, "conform",
                          IF op \in {"construct", "refines", "copy", "rename"} THEN "n/a" ELSE IF Agrees THEN "ok" ELSE "drift", pc \o "/" \o exc>>)
\* design-level invariants evaluated on the states reached along recorded paths
=====================================================================
