---------------------------- MODULE TraceSerial ----------------------------
(* Trace validation of the serialisation round trips of the real library (C10) against
   Contracts.tla: a contract that went out and came back must be the same contract. *)
EXTENDS Contracts, Json, IOUtils
Traces == ndJsonDeserialize(IOEnv.TRACE_FILE)

NoBoxS(hyp, h) == \A key \in DOMAIN h.lam : h.lam[key] = 0 \/ \E i \in 1..Len(hyp) : key = ToString(i)
SameRow(r, s) == r.co = s.co /\ r.c = s.c /\ r.k = s.k
CountRow(s, x) == Cardinality({i \in DOMAIN s : SameRow(s[i], x)})
BagEqRows(s, t) == Len(s) = Len(t) /\ \A i \in DOMAIN s : CountRow(s, s[i]) = CountRow(t, s[i])
SameItf(x, y) == x.inv = y.inv /\ x.outv = y.outv          \* as lists
SameItfSets(x, y) == Set(x.inv) = Set(y.inv) /\ Set(x.outv) = Set(y.outv)

\* e: [form, orig, back, exc, parsed_ok (every emitted string was accepted), exact (driver: every number bit-equal), eq (driver: ==), hints, names, g, ok]
\* reading back re-simplifies; if the constraints ROUNDED to four significant digits are unsatisfiable the
\* constructor legitimately raises ValueError (established by a box-free infeasibility certificate;
\* without one, and only for inputs that rounding actually changes, the event is unjudged)
SerialJudge(e) ==
  IF e.exc = "ValueError" /\ e.infeas.kind = "infeasible" /\ NoBoxS(e.orig.a \o e.orig.g, e.infeas)
     /\ InfeasOK(e.orig.a \o e.orig.g, e.names, e.infeas) THEN <<"ok", "rounded-system-unsatisfiable">>
  ELSE IF e.exc = "ValueError" /\ e.rounded THEN <<"unjudged", "rounded-system-may-be-unsatisfiable">>
  \* ValueError is the documented answer for an unsatisfiable contract: without a certificate of that, the refusal is a violation only
  \* when a point satisfies every row (a hint; every row is re-evaluated here) -- otherwise nothing is established
  ELSE IF e.exc = "ValueError"
       THEN (IF e.feas.kind = "witness" /\ e.feas.d > 0 /\ (\A v \in Rng(e.names) : v \in DOMAIN e.feas.q)
                /\ AllHoldAt(e.orig.a \o e.orig.g, e.feas.q, e.feas.d)
             THEN <<"violation", "round-trip-raised:ValueError-on-a-satisfiable-contract">>
             ELSE <<"unjudged", "refusal-without-certificate">>)
  ELSE IF e.exc # "none" THEN <<"violation", "round-trip-raised:" \o e.exc>>
  \* a file holds a LIST of named entries: what is read is what was written, entry for entry (names may repeat, kinds may mix)
  ELSE IF e.file.names_w # e.file.names_r \/ e.file.kinds_w # e.file.kinds_r THEN <<"violation", e.form \o ":entries-changed">>
  ELSE IF e.form = "machine-dict"
  THEN (IF ~e.exact THEN <<"violation", "machine-dict:number-changed">>
        ELSE IF ~e.eq THEN <<"violation", "machine-dict:not-equal">>
        ELSE IF ~SameItf(e.orig, e.back) THEN <<"violation", "machine-dict:interface">>
        ELSE IF ~(BagEqRows(e.orig.a, e.back.a) /\ BagEqRows(e.orig.g, e.back.g)) THEN <<"violation", "machine-dict:rows">>
        ELSE <<"ok", "identical">>)
  ELSE IF e.form = "strings-exact"
  \* read back without re-simplification: the rows are the printed (4 significant digit) rows, as a multiset
  THEN (IF ~SameItf(e.orig, e.back) THEN <<"violation", "strings:interface">>
        ELSE IF ~e.eqok THEN <<"unjudged", "magnitude">>           \* a number does not fit 32 bits even for comparison
        ELSE IF BagEqRows(e.orig.a, e.back.a) /\ BagEqRows(e.orig.g, e.back.g) THEN <<"ok", "same-rows">>
        \* other rows are acceptable as long as they MEAN the rounded rows (the statement is about meaning)
        ELSE IF ~e.ok THEN <<"unjudged", "magnitude">>
        ELSE DecideAll(EquivClauses(e.back, e.orig), e.names, e.hints, e.g, "strings"))
  ELSE \* read back through a path that re-simplifies (file reader, from_dict): same interface and the same meaning
       (IF ~SameItfSets(e.orig, e.back) THEN <<"violation", e.form \o ":interface">>
        ELSE IF e.eqok /\ BagEqRows(e.orig.a, e.back.a) /\ BagEqRows(e.orig.g, e.back.g) THEN <<"ok", "same-rows">>
        ELSE IF e.form \in {"file-machine", "file-machine-multi"} /\ e.bits THEN <<"ok", "bit-identical">>      \* driver: every number bit-equal, same rows
        ELSE IF ~e.ok THEN <<"unjudged", "magnitude">>
        ELSE DecideAll(EquivClauses(e.back, e.orig), e.names, e.hints, e.g, e.form))

VARIABLES tid, l, last
vars == <<tid, l, last>>
Init == tid \in 1..Len(Traces) /\ l = 0 /\ last = <<>>
Step == /\ l < Len(Traces[tid].ev) /\ l' = l + 1
        /\ last' = <<(<<"serial">> \o SerialJudge(Traces[tid].ev[l + 1]))>>
        /\ UNCHANGED tid
Spec == Init /\ [][Step]_vars
Report == l > 0 => \A i \in DOMAIN last : PrintT(<<"VERDICT", Traces[tid].id, l, last[i][1], last[i][2], last[i][3]>>)
=====================================================================
