SPECIFICATION Spec
CONSTANTS
  Vars = {x, y}
  Bounds <- BoundsDef
  K = 4
  Eps = 1
  Tol = 2
  MaxRows = 2
  Retry = TRUE
INVARIANT Reflexive
INVARIANT RefinesSound
INVARIANT RefinesComplete
INVARIANT EmptyExact
INVARIANT ReduceSelection
INVARIANT ReduceEquivalent
INVARIANT ReduceErrorOnlyIfInfeasible
INVARIANT NoOtherError
INVARIANT OptExact
CHECK_DEADLOCK FALSE
