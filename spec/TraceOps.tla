--------------------------- MODULE TraceOps ---------------------------
(* Trace validation of the contract operations of the real PolyhedralIoContract
   (compose, quotient, merge, rename_variable) against Contracts.tla.
   Every event carries the operands, the parameters, the result or the exception class, the
   list of clause groups to judge and one hint list per group.  Groups:
     itf      C06  well-formedness, prescribed interface, rejection of meaningless requests
     sound    C01 (compose) / C02 (quotient)
     keeps    C15  interface-level guarantees are still enforced
     exact    C08 (merge) / C15 (compose of unconnected contracts): exact conjunction
     faithful C16  rename is substitution                                              *)
EXTENDS Contracts, Json, IOUtils
Traces == ndJsonDeserialize(IOEnv.TRACE_FILE)

Raised(e) == e.exc # "none"
DocumentedRefusal(e) == e.exc \in {"IncompatibleArgsError", "ValueError"}
Declined(e, tag) == IF DocumentedRefusal(e) THEN <<"ok", tag \o ":declined">> ELSE <<"violation", "exception:" \o e.exc>>
Hints(e, grp) == IF grp \in DOMAIN e.hints THEN e.hints[grp] ELSE <<>>

ItfJudge(e, meaningful, wantIn, wantOut) ==
  IF ~e.intact THEN <<"violation", IF Raised(e) THEN "itf:operand-changed-by-failed-call" ELSE "itf:operand-changed">>
                                                                  \* an operand, re-inspected after the call, is no longer what it was
                                                                  \* (C06/C13; after an error also C14: "an error leaves all operands usable")
  ELSE IF Raised(e)
  THEN IF ~meaningful
       THEN (IF e.exc = "IncompatibleArgsError" THEN <<"ok", "itf:rejected">> ELSE <<"violation", "itf:wrong-rejection:" \o e.exc>>)
       ELSE Declined(e, "itf")
  ELSE IF ~meaningful THEN <<"violation", "itf:meaningless-request-accepted">>
  ELSE IF ~WellFormed(e.res) THEN <<"violation", "itf:ill-formed-result">>
  ELSE IF Set(e.res.inv) # wantIn THEN <<"violation", "itf:inputs">>
  ELSE IF Set(e.res.outv) # wantOut THEN <<"violation", "itf:outputs">>
  ELSE <<"ok", "itf">>

Sem(e, grp, cls) ==
  IF Raised(e) THEN Declined(e, grp)
  ELSE IF ~e.ok THEN <<"unjudged", grp \o ":snap">>
  ELSE DecideAll(cls, e.names, Hints(e, grp), e.g, grp)

JudgeCompose(e, grp) ==
  LET keep == Set(e.keep) IN
  CASE grp = "itf" -> ItfJudge(e, ComposeMeaningful(e.c1, e.c2, keep), ComposeIn(e.c1, e.c2), ComposeOut(e.c1, e.c2, keep))
    [] grp = "sound" -> Sem(e, grp, ComposeSoundClauses(e.c1, e.c2, e.res))
    [] grp = "keeps" -> Sem(e, grp, KeepsClauses(e.c1, e.c2, e.res))
    [] grp = "exact" -> IF Connected(e.c1, e.c2) # {} THEN <<"ok", "exact:n/a">>
                        ELSE Sem(e, grp, ExactClauses(e.c1, e.c2, e.res))
    [] OTHER -> <<"malformed", "group">>

JudgeQuotient(e, grp) ==
  LET addl == Set(e.addl) IN
  CASE grp = "itf" -> ItfJudge(e, QuotientMeaningful(e.c1, e.c2, addl), QuotientIn(e.c1, e.c2, addl), QuotientOut(e.c1, e.c2))
    [] grp = "sound" -> Sem(e, grp, QuotientSoundClauses(e.c1, e.c2, e.res))
    [] OTHER -> <<"malformed", "group">>

JudgeMerge(e, grp) ==
  CASE grp = "itf" -> ItfJudge(e, MergeMeaningful(e.c1, e.c2), MergeIn(e.c1, e.c2), MergeOut(e.c1, e.c2))
    [] grp = "exact" -> Sem(e, grp, ExactClauses(e.c1, e.c2, e.res))
    [] grp = "keeps" -> Sem(e, grp, KeepsClauses(e.c1, e.c2, e.res))
    [] OTHER -> <<"malformed", "group">>

\* a rename has one reason to answer ValueError: the substituted contract is unsatisfiable.  A point at which every substituted
\* assumption and guarantee holds (a hint; every row is re-evaluated here) shows that it is not.
RefusedSatisfiable(e, want) ==
  /\ e.exc = "ValueError" /\ e.refusal.kind = "witness" /\ e.refusal.d > 0
  /\ \A v \in Rng(e.names) : v \in DOMAIN e.refusal.q
  /\ AllHoldAt(want.a \o want.g, e.refusal.q, e.refusal.d)
Faithful(e, want) == IF RefusedSatisfiable(e, want) THEN <<"violation", "faithful:satisfiable-contract-refused">>
                     ELSE Sem(e, "faithful", EquivClauses(e.res, want))

JudgeRename(e, grp) ==
  CASE grp = "itf" /\ e.s \notin ItfVars(e.c1) /\ Raised(e) -> <<"violation", "itf:absent-source-rejected:" \o e.exc>>   \* renaming an absent variable changes nothing
    [] grp = "itf" -> ItfJudge(e, ~RenameClash(e.c1, e.s, e.t),
                               IF e.s \in ItfVars(e.c1) THEN RenameSet(Set(e.c1.inv), e.s, e.t) ELSE Set(e.c1.inv),
                               IF e.s \in ItfVars(e.c1) THEN RenameSet(Set(e.c1.outv), e.s, e.t) ELSE Set(e.c1.outv))
    [] grp = "faithful" -> Faithful(e, Renamed(e.c1, e.s, e.t))
    [] OTHER -> <<"malformed", "group">>

JudgeRenames(e, grp) ==
  LET want == RenamedAll(e.c1, e.maps, 1) IN
  CASE grp = "itf" -> ItfJudge(e, ~ClashAll(e.c1, e.maps, 1), Set(want.inv), Set(want.outv))
    [] grp = "faithful" -> IF ClashAll(e.c1, e.maps, 1) THEN Sem(e, grp, EquivClauses(e.res, want)) ELSE Faithful(e, want)
    [] OTHER -> <<"malformed", "group">>

Judge(e, grp) ==
  CASE e.op = "compose" -> JudgeCompose(e, grp)
    [] e.op = "renames" -> JudgeRenames(e, grp)
    [] e.op = "quotient" -> JudgeQuotient(e, grp)
    [] e.op = "merge" -> JudgeMerge(e, grp)
    [] e.op = "rename" -> JudgeRename(e, grp)
    [] OTHER -> <<"malformed", "op">>

VARIABLES tid, l, last
vars == <<tid, l, last>>
Init == tid \in 1..Len(Traces) /\ l = 0 /\ last = <<>>
Step == /\ l < Len(Traces[tid].ev)
        /\ l' = l + 1
        /\ LET e == Traces[tid].ev[l + 1] IN
           last' = [i \in DOMAIN e.groups |-> <<e.groups[i]>> \o Judge(e, e.groups[i])]
        /\ UNCHANGED tid
Spec == Init /\ [][Step]_vars
Report == l > 0 => \A i \in DOMAIN last : PrintT(<<"VERDICT", Traces[tid].id, l, last[i][1], last[i][2], last[i][3]>>)
=====================================================================
