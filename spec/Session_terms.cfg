SPECIFICATION Spec
CONSTANTS
  MaxLen = 1000
  NSeed = 6
  EmitLen = 14
  OpFilter <- TermOps
  NParam = 4
CONSTRAINT Emit
CHECK_DEADLOCK FALSE
