SPECIFICATION TSpec
CONSTANTS
  MaxLen = 24
  NSeed = 6
  EmitLen = 24
  OpFilter <- AllOps
  NParam = 4
CONSTRAINT Report
CHECK_DEADLOCK FALSE
