SPECIFICATION Spec
CONSTANTS
  VarIds = {1, 2, 3}
  Fresh = 4
  Coefs <- CoefSet
  Consts = {3}
  MaxKeys = 3
  MaxTerms = 0
  Grid <- GridSet
  Mode = "itf"
  AddWithoutMerge = FALSE
CONSTRAINT Emit
CHECK_DEADLOCK FALSE
