SPECIFICATION TSpec
CONSTANTS
  V = {"v1", "v2", "v3", "v4", "v5", "v6"}
  NoNegation = FALSE
  KeepSelf = FALSE
CONSTRAINT Report
CHECK_DEADLOCK FALSE
