---------------------------- MODULE TraceLP ----------------------------
(* Trace validation of the LP-backed queries of the real library against LP.tla. *)
EXTENDS LP, Json, IOUtils
Traces == ndJsonDeserialize(IOEnv.TRACE_FILE)

Judge(e) ==
  CASE e.op = "simplify" -> SimplifyJudge(e)
    [] e.op = "refines" -> RefinesJudge(ListTruth(e.L, e.R, e.names, e.hints.fwd), e.ans)
    [] e.op = "crefines" ->
         IF e.shares THEN RefinesJudge(ContractTruth(e.c1, e.c2, e.names, e.hints), e.ans)
         ELSE (IF e.ans = "IncompatibleArgsError" THEN <<"ok", "rejected">> ELSE <<"violation", "different-interfaces:" \o e.ans>>)
    [] e.op = "contains" -> ContainsJudge(e)
    [] e.op = "empty" -> EmptyJudge(e)
    [] e.op = "consistency" -> ConsistencyJudge(e)
    [] e.op = "optimize" -> OptimizeJudge(e)
    [] OTHER -> <<"malformed", "op">>

VARIABLES tid, l, last
vars == <<tid, l, last>>
Init == tid \in 1..Len(Traces) /\ l = 0 /\ last = <<>>
Step == /\ l < Len(Traces[tid].ev)
        /\ l' = l + 1
        /\ LET e == Traces[tid].ev[l + 1] IN
           last' = [i \in DOMAIN e.groups |-> <<e.groups[i]>> \o Judge(e)]
        /\ UNCHANGED tid
Spec == Init /\ [][Step]_vars
Report == l > 0 => \A i \in DOMAIN last : PrintT(<<"VERDICT", Traces[tid].id, l, last[i][1], last[i][2], last[i][3]>>)
=====================================================================
