---------------------------- MODULE Elim ----------------------------
(***************************************************************************)
(* C04 -- the contract of variable elimination on constraint lists.        *)
(*                                                                         *)
(*   refine : context /\ result  =>  every original row                    *)
(*   relax  : context /\ original =>  every result row,                    *)
(*            and no result row mentions an eliminated variable            *)
(*   a call may decline with ValueError; nothing else may escape (C14).    *)
(*                                                                         *)
(* The contract is stated at a point (..At) and decided for a whole call   *)
(* from untrusted hints (Poly!Decide).                                     *)
(***************************************************************************)
EXTENDS Poly

RefinePostAt(S, ctx, R, q, d) ==
  (AllHoldAt(ctx, q, d) /\ AllHoldAt(R, q, d)) => \A i \in DOMAIN S : ~BrokenAt(S[i], q, d)
RelaxPostAt(S, ctx, R, q, d) ==
  (AllHoldAt(ctx, q, d) /\ AllHoldAt(S, q, d)) => \A i \in DOMAIN R : ~BrokenAt(R[i], q, d)
NoElimVars(R, elim) == RowsVars(R) \cap Rng(elim) = {}

\* e: [op, names, elim, S, ctx, R, exc, ok, g, hints]
ElimHyp(e) == IF e.op = "refine" THEN e.ctx \o e.R ELSE e.ctx \o e.S
ElimTargets(e) == IF e.op = "refine" THEN e.S ELSE e.R

ElimJudge(e) ==
  IF e.exc # "none"
  THEN (IF e.exc = "ValueError" THEN <<"ok", "declined">> ELSE <<"violation", "exception:" \o e.exc>>)
  ELSE IF ~e.ok THEN <<"unjudged", "snap">>
  ELSE IF e.op = "relax" /\ ~NoElimVars(e.R, e.elim) THEN <<"violation", "leftover-variable">>
  ELSE IF Len(e.hints) # Len(ElimTargets(e)) THEN <<"malformed", "hints">>
  ELSE LET hyp == ElimHyp(e)
           tg == ElimTargets(e)
           dec == [i \in DOMAIN tg |-> Decide(hyp, e.names, tg[i], e.hints[i], e.g)]
       IN IF \E i \in DOMAIN tg : dec[i] = "broken"
          THEN <<"violation", "row:" \o ToString(CHOOSE i \in DOMAIN tg : dec[i] = "broken")>>
          ELSE IF \A i \in DOMAIN tg : dec[i] = "holds" THEN <<"ok", "certified">>
          ELSE <<"unjudged", "open">>
=====================================================================
