------------------------------ MODULE Kaykobad ------------------------------
(***************************************************************************)
(* Tactic 1 of polyhedra.py: the ROW SELECTION _get_kaykobad_context,      *)
(* transcribed statement by statement, and -- together with                *)
(* ContextReduction.tla, the step that follows it -- the soundness of the  *)
(* tactic as a design-level statement.                                     *)
(*                                                                         *)
(* For the variables to eliminate that the term mentions (in the order of  *)
(* vars_to_elim) one context row each is looked for, in list order, among  *)
(* the rows not chosen yet and different from the term, such that          *)
(*   0. it mentions no OTHER variable to eliminate,                        *)
(*   1. each of its non-zero coefficients on those variables has the sign  *)
(*      of the term's (refining) or the opposite sign (relaxing),          *)
(*   2. its coefficient on the variable of this round is not zero,         *)
(*   3. for every such variable j the accumulated off-diagonal weight      *)
(*        partial[j] + sign(q_j) a_j q_i / a_i    (0 for j = i)            *)
(*      stays strictly below |q_j|  (q: the term, a: the row);             *)
(* the first row that passes is taken and its weights are added to the     *)
(* partial sums.  No row for some round: ValueError.  A selection whose    *)
(* rows mention nothing but eliminated variables, for a term that does     *)
(* not either: ValueError ("empty transformation").                        *)
(* Rational quantities are pairs <<numerator, denominator>>, denominator   *)
(* positive.                                                               *)
(*                                                                         *)
(* SOUNDNESS (TLC, every state of the universe, one or two eliminated      *)
(* variables): whenever rows are selected, the system is solvable          *)
(* (determinant not zero) and the multipliers of the certificate           *)
(*      den * term - result = SUM mu_i row_i   (ContextReduction!Laws)     *)
(* are all >= 0 when refining and all <= 0 when relaxing: the context and  *)
(* the result imply the term, respectively the context and the term imply  *)
(* the result, for ALL real points.  The wrong variant whose sign test     *)
(* reads ONE coefficient (`any` for `all`, seeded C01g/2) is refuted.      *)
(* (With two variables the accumulated sums of condition 3 never decide;   *)
(* three variables would need the 3 x 3 determinants: not transcribed.)    *)
(* Generator mode: every state with the selection; lib/kkdrv.py calls the  *)
(* real _get_kaykobad_context on all of them.                              *)
(***************************************************************************)
EXTENDS Integers, Sequences, FiniteSets, TLC, Json
CONSTANTS VarIds, CoT, CoR, ConstT, ConstR, MaxCtx, ElimLists,
          SignAny         \* wrong variant: condition 1 holds as soon as ONE coefficient has the right sign
SetA == {-2, 0, 1}
SetB == {-1, 0, 2}
SetC == {-2, -1, 0, 1, 2}
Lists1 == {<<1>>, <<1, 2>>, <<2, 1>>, <<1, 3>>}
Abs(n) == IF n < 0 THEN -n ELSE n
Sgn(n) == IF n > 0 THEN 1 ELSE IF n < 0 THEN -1 ELSE 0
GetSign(n) == IF n >= 0 THEN 1 ELSE -1                                 \* PolyhedralTerm.get_sign: zero counts as positive
Rng(s) == {s[i] : i \in DOMAIN s}
Form(co, c) == [co |-> co, c |-> c]
TermVars(t) == {v \in VarIds : t.co[v] # 0}
\* rationals
RAdd(p, q) == <<p[1] * q[2] + q[1] * p[2], p[2] * q[2]>>
RNorm(n, d) == IF d < 0 THEN <<-n, -d>> ELSE <<n, d>>
RLeq(k, p) == k * p[2] <= p[1]                                          \* integer k <= p

Forbidden(term, elim) == SelectSeq(elim, LAMBDA v : v \in TermVars(term))            \* list_intersection(vars_to_elim, term.vars)
Others(term, elim) == {v \in Rng(elim) : v \notin TermVars(term)}                     \* list_diff(vars_to_elim, term.vars)

\* conditions on context row r in round i (fv: forbidden list, ps: partial sums, one rational per position of fv)
Cond0(r, term, elim) == \A v \in Others(term, elim) : r.co[v] = 0
SignOK(r, term, v, tc) == tc * GetSign(r.co[v]) = GetSign(term.co[v])
Cond1(r, term, fv, tc) ==
  IF SignAny THEN (\A j \in DOMAIN fv : r.co[fv[j]] = 0) \/ (\E j \in DOMAIN fv : r.co[fv[j]] # 0 /\ SignOK(r, term, fv[j], tc))
  ELSE \A j \in DOMAIN fv : r.co[fv[j]] # 0 => SignOK(r, term, fv[j], tc)
Residual(r, term, fv, i, j) == IF j = i THEN <<0, 1>> ELSE RNorm(GetSign(term.co[fv[j]]) * r.co[fv[j]] * term.co[fv[i]], r.co[fv[i]])
Cond3(r, term, fv, i, ps) ==
  \A j \in DOMAIN fv : ~RLeq(Abs(term.co[fv[j]]), RAdd(ps[j], Residual(r, term, fv, i, j)))
Passes(r, term, elim, fv, i, ps, tc) == Cond0(r, term, elim) /\ Cond1(r, term, fv, tc) /\ r.co[fv[i]] # 0 /\ Cond3(r, term, fv, i, ps)

\* list_diff(context.terms, matrix_row_terms) is by term EQUALITY: a row equal to a chosen one is not looked at again
RECURSIVE Rounds(_, _, _, _, _, _, _)
Rounds(term, ctx, elim, tc, i, chosen, ps) ==
  LET fv == Forbidden(term, elim) IN
  IF i > Len(fv) THEN [kind |-> "rows", rows |-> chosen]
  ELSE LET cand == {k \in DOMAIN ctx : (\A m \in DOMAIN chosen : ctx[chosen[m]] # ctx[k]) /\ ctx[k] # term /\ Passes(ctx[k], term, elim, fv, i, ps, tc)} IN
       IF cand = {} THEN [kind |-> "ValueError", rows |-> <<>>]
       ELSE LET k == CHOOSE k \in cand : \A m \in cand : k <= m IN
            Rounds(term, ctx, elim, tc, i + 1, chosen \o <<k>>, [j \in DOMAIN fv |-> RAdd(ps[j], Residual(ctx[k], term, fv, i, j))])
Select(term, ctx, elim, refine) ==
  LET fv == Forbidden(term, elim)
      r == Rounds(term, ctx, elim, IF refine THEN 1 ELSE -1, 1, <<>>, [j \in DOMAIN fv |-> <<0, 1>>]) IN
  IF r.kind # "rows" THEN r
  ELSE IF (\A m \in DOMAIN r.rows : TermVars(ctx[r.rows[m]]) \subseteq Rng(fv)) /\ TermVars(term) \subseteq Rng(elim)
       THEN [kind |-> "ValueError", rows |-> <<>>]                        \* "Found context will produce empty transformation"
       ELSE r

\* ---- the certificate of the step that follows (ContextReduction.tla): multipliers over the determinant
Det(F, R) == IF Len(F) = 1 THEN R[1].co[F[1]] ELSE R[1].co[F[1]] * R[2].co[F[2]] - R[1].co[F[2]] * R[2].co[F[1]]
Mult(t, F, R, i) ==
  IF Len(F) = 1 THEN t.co[F[1]]
  ELSE LET a11 == R[1].co[F[1]]  a12 == R[1].co[F[2]]  a21 == R[2].co[F[1]]  a22 == R[2].co[F[2]]  p1 == t.co[F[1]]  p2 == t.co[F[2]] IN
       IF i = 1 THEN p1 * a22 - p2 * a21 ELSE a11 * p2 - a12 * p1

VARIABLES term, ctx, elim, refine
vars == <<term, ctx, elim, refine>>
Forms(S, C) == {Form(co, c) : co \in [VarIds -> S], c \in C}
Init == /\ term \in Forms(CoT, ConstT) /\ ctx \in UNION {[1..n -> Forms(CoR, ConstR)] : n \in 0..MaxCtx}
        /\ elim \in ElimLists /\ refine \in BOOLEAN
        /\ Forbidden(term, elim) # <<>>
Next == UNCHANGED vars
Spec == Init /\ [][Next]_vars

\* mu_i = Mult_i / det ; the sign of mu_i is the sign of Mult_i * det
Sound ==
  LET s == Select(term, ctx, elim, refine) IN
  s.kind = "rows" =>
    LET F == Forbidden(term, elim)  R == [m \in DOMAIN s.rows |-> ctx[s.rows[m]]]  d == Det(F, R) IN
    /\ Len(s.rows) = Len(F)
    /\ d # 0
    /\ \A i \in DOMAIN F : IF refine THEN Mult(term, F, R, i) * d >= 0 ELSE Mult(term, F, R, i) * d <= 0
Found == Select(term, ctx, elim, refine).kind # "rows"                         \* vacuity guard: must be refuted
FoundTwo == ~(Select(term, ctx, elim, refine).kind = "rows" /\ Len(Forbidden(term, elim)) = 2)   \* vacuity guard: must be refuted

Emit == PrintT(<<"CASE", ToJson([term |-> term, ctx |-> ctx, elim |-> elim, refine |-> refine, sel |-> Select(term, ctx, elim, refine)])>>)
=====================================================================
