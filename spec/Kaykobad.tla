------------------------------ MODULE Kaykobad ------------------------------
(***************************************************************************)
(* Tactic 1 of polyhedra.py: the ROW SELECTION _get_kaykobad_context,      *)
(* transcribed statement by statement, and -- together with                *)
(* ContextReduction.tla, the step that follows it -- the soundness of the  *)
(* tactic as a design-level statement.                                     *)
(*                                                                         *)
(* For the variables to eliminate that the term mentions (in the order of  *)
(* vars_to_elim) one context row each is looked for, in list order, among  *)
(* the rows not chosen yet and different from the term, such that          *)
(*   0. it mentions no OTHER variable to eliminate,                        *)
(*   1. each of its non-zero coefficients on those variables has the sign  *)
(*      of the term's (refining) or the opposite sign (relaxing),          *)
(*   2. its coefficient on the variable of this round is not zero,         *)
(*   3. for every such variable j the accumulated off-diagonal weight      *)
(*        partial[j] + sign(q_j) a_j q_i / a_i    (0 for j = i)            *)
(*      stays strictly below |q_j|  (q: the term, a: the row);             *)
(* the first row that passes is taken and its weights are added to the     *)
(* partial sums.  No row for some round: ValueError.  A selection whose    *)
(* rows mention nothing but eliminated variables, for a term that does     *)
(* not either: ValueError ("empty transformation").                        *)
(* Rational quantities are pairs <<numerator, denominator>>, denominator   *)
(* positive.                                                               *)
(*                                                                         *)
(* SOUNDNESS (TLC, every state of the universe, one to three eliminated    *)
(* variables): whenever rows are selected, the system is solvable          *)
(* (determinant not zero) and the multipliers of the certificate           *)
(*      den * term - result = SUM mu_i row_i   (ContextReduction!Laws)     *)
(* are all >= 0 when refining and all <= 0 when relaxing: the context and  *)
(* the result imply the term, respectively the context and the term imply  *)
(* the result, for ALL real points.  Two wrong variants are refuted: the   *)
(* sign test reading ONE coefficient (`any` for `all`, seeded C01g/2) and, *)
(* with THREE eliminated variables, condition 3 without the accumulated    *)
(* sums (with two variables the sums never decide).                        *)
(* Generator mode: every state with the selection; lib/kkdrv.py calls the  *)
(* real _get_kaykobad_context on all of them.                              *)
(***************************************************************************)
EXTENDS Integers, Sequences, FiniteSets, TLC, Json
CONSTANTS VarIds, CoT, CoR, ConstT, ConstR, MaxCtx, ElimLists,
          KeptOnly,       \* variables that only the term mentions, with coefficient 1 (keeps the three-variable universe small)
          SignAny,        \* wrong variant: condition 1 holds as soon as ONE coefficient has the right sign
          NoAccumulation  \* wrong variant: condition 3 without the partial sums of the rows chosen before (three variables)
SetA == {-2, 0, 1}
SetB == {-1, 0, 2}
SetC == {-2, -1, 0, 1, 2}
Lists1 == {<<1>>, <<1, 2>>, <<2, 1>>, <<1, 3>>}
Lists3 == {<<1, 2, 3>>, <<3, 1, 2>>}
NoVars == {}
Var4 == {4}
SetT3 == {-3, 2, 3}            \* terms that mention all three variables
SetR3 == {-1, 0, 1}
Abs(n) == IF n < 0 THEN -n ELSE n
Sgn(n) == IF n > 0 THEN 1 ELSE IF n < 0 THEN -1 ELSE 0
GetSign(n) == IF n >= 0 THEN 1 ELSE -1                                 \* PolyhedralTerm.get_sign: zero counts as positive
Rng(s) == {s[i] : i \in DOMAIN s}
Form(co, c) == [co |-> co, c |-> c]
TermVars(t) == {v \in VarIds : t.co[v] # 0}
\* rationals
RAdd(p, q) == <<p[1] * q[2] + q[1] * p[2], p[2] * q[2]>>
RNorm(n, d) == IF d < 0 THEN <<-n, -d>> ELSE <<n, d>>
RLeq(k, p) == k * p[2] <= p[1]                                          \* integer k <= p

Forbidden(term, elim) == SelectSeq(elim, LAMBDA v : v \in TermVars(term))            \* list_intersection(vars_to_elim, term.vars)
Others(term, elim) == {v \in Rng(elim) : v \notin TermVars(term)}                     \* list_diff(vars_to_elim, term.vars)

\* conditions on context row r in round i (fv: forbidden list, ps: partial sums, one rational per position of fv)
Cond0(r, term, elim) == \A v \in Others(term, elim) : r.co[v] = 0
SignOK(r, term, v, tc) == tc * GetSign(r.co[v]) = GetSign(term.co[v])
Cond1(r, term, fv, tc) ==
  IF SignAny THEN (\A j \in DOMAIN fv : r.co[fv[j]] = 0) \/ (\E j \in DOMAIN fv : r.co[fv[j]] # 0 /\ SignOK(r, term, fv[j], tc))
  ELSE \A j \in DOMAIN fv : r.co[fv[j]] # 0 => SignOK(r, term, fv[j], tc)
Residual(r, term, fv, i, j) == IF j = i THEN <<0, 1>> ELSE RNorm(GetSign(term.co[fv[j]]) * r.co[fv[j]] * term.co[fv[i]], r.co[fv[i]])
Cond3(r, term, fv, i, ps) ==
  \A j \in DOMAIN fv : ~RLeq(Abs(term.co[fv[j]]), IF NoAccumulation THEN Residual(r, term, fv, i, j) ELSE RAdd(ps[j], Residual(r, term, fv, i, j)))
Passes(r, term, elim, fv, i, ps, tc) == Cond0(r, term, elim) /\ Cond1(r, term, fv, tc) /\ r.co[fv[i]] # 0 /\ Cond3(r, term, fv, i, ps)

\* list_diff(context.terms, matrix_row_terms) is by term EQUALITY: a row equal to a chosen one is not looked at again
RECURSIVE Rounds(_, _, _, _, _, _, _)
Rounds(term, ctx, elim, tc, i, chosen, ps) ==
  LET fv == Forbidden(term, elim) IN
  IF i > Len(fv) THEN [kind |-> "rows", rows |-> chosen]
  ELSE LET cand == {k \in DOMAIN ctx : (\A m \in DOMAIN chosen : ctx[chosen[m]] # ctx[k]) /\ ctx[k] # term /\ Passes(ctx[k], term, elim, fv, i, ps, tc)} IN
       IF cand = {} THEN [kind |-> "ValueError", rows |-> <<>>]
       ELSE LET k == CHOOSE k \in cand : \A m \in cand : k <= m IN
            Rounds(term, ctx, elim, tc, i + 1, chosen \o <<k>>, [j \in DOMAIN fv |-> RAdd(ps[j], Residual(ctx[k], term, fv, i, j))])
Select(term, ctx, elim, refine) ==
  LET fv == Forbidden(term, elim)
      r == Rounds(term, ctx, elim, IF refine THEN 1 ELSE -1, 1, <<>>, [j \in DOMAIN fv |-> <<0, 1>>]) IN
  IF r.kind # "rows" THEN r
  ELSE IF (\A m \in DOMAIN r.rows : TermVars(ctx[r.rows[m]]) \subseteq Rng(fv)) /\ TermVars(term) \subseteq Rng(elim)
       THEN [kind |-> "ValueError", rows |-> <<>>]                        \* "Found context will produce empty transformation"
       ELSE r

\* ---- the certificate of the step that follows (ContextReduction.tla): multipliers over the determinant, by Cramer's rule, n <= 3
Minor(M, r, c) == [i \in 1..(Len(M) - 1) |-> [j \in 1..(Len(M) - 1) |-> M[IF i < r THEN i ELSE i + 1][IF j < c THEN j ELSE j + 1]]]
RECURSIVE DetM(_), Expand(_, _)
Expand(M, j) == IF j > Len(M) THEN 0 ELSE (IF j % 2 = 1 THEN 1 ELSE -1) * M[1][j] * DetM(Minor(M, 1, j)) + Expand(M, j + 1)
DetM(M) == IF Len(M) = 1 THEN M[1][1] ELSE Expand(M, 1)
\* A^T : entry (j, i) = coefficient of row i on variable F[j]
AT(F, R) == [j \in 1..Len(F) |-> [i \in 1..Len(F) |-> R[i].co[F[j]]]]
Det(F, R) == DetM(AT(F, R))
\* numerator of mu_i in  A^T mu = p  (p = the term's coefficients on F): column i replaced by p
Mult(t, F, R, i) == DetM([j \in 1..Len(F) |-> [k \in 1..Len(F) |-> IF k = i THEN t.co[F[j]] ELSE R[k].co[F[j]]]])

VARIABLES term, ctx, elim, refine
vars == <<term, ctx, elim, refine>>
Forms(S, C) == {Form(co, c) : co \in [VarIds -> S], c \in C}
TermForms == {f \in Forms(CoT \cup {1}, ConstT) : (\A v \in KeptOnly : f.co[v] = 1) /\ (\A v \in VarIds \ KeptOnly : f.co[v] \in CoT)}
RowForms == {f \in Forms(CoR \cup {0}, ConstR) : (\A v \in KeptOnly : f.co[v] = 0) /\ (\A v \in VarIds \ KeptOnly : f.co[v] \in CoR)}
Init == /\ term \in TermForms /\ ctx \in UNION {[1..n -> RowForms] : n \in 0..MaxCtx}
        /\ elim \in ElimLists /\ refine \in BOOLEAN
        /\ Forbidden(term, elim) # <<>>
Next == UNCHANGED vars
Spec == Init /\ [][Next]_vars

\* mu_i = Mult_i / det ; the sign of mu_i is the sign of Mult_i * det
Sound ==
  LET s == Select(term, ctx, elim, refine) IN
  s.kind = "rows" =>
    LET F == Forbidden(term, elim)  R == [m \in DOMAIN s.rows |-> ctx[s.rows[m]]]  d == Det(F, R) IN
    /\ Len(s.rows) = Len(F)
    /\ d # 0
    /\ \A i \in DOMAIN F : IF refine THEN Mult(term, F, R, i) * d >= 0 ELSE Mult(term, F, R, i) * d <= 0
Found == Select(term, ctx, elim, refine).kind # "rows"                         \* vacuity guard: must be refuted
FoundTwo == ~(Select(term, ctx, elim, refine).kind = "rows" /\ Len(Forbidden(term, elim)) = 2)   \* vacuity guard: must be refuted
FoundThree == ~(Select(term, ctx, elim, refine).kind = "rows" /\ Len(Forbidden(term, elim)) = 3) \* vacuity guard: must be refuted

Emit == PrintT(<<"CASE", ToJson([term |-> term, ctx |-> ctx, elim |-> elim, refine |-> refine, sel |-> Select(term, ctx, elim, refine)])>>)
\* the three-variable universe has 2.2 M states: every selection that succeeds and one in sixteen of the others
RECURSIVE MixRows(_, _)
MixRows(c, k) == IF k > Len(c) THEN 0 ELSE (7 * k + 3) * c[k].co[1] + (11 * k + 5) * c[k].co[2] + (13 * k + 1) * c[k].co[3] + MixRows(c, k + 1)
Mix == term.co[1] + 3 * term.co[2] + 5 * term.co[3] + 7 * Len(ctx) + (IF refine THEN 13 ELSE 0) + elim[1] + MixRows(ctx, 1)
EmitSample == (Select(term, ctx, elim, refine).kind = "rows" \/ Mix % 16 = 0) => Emit
=====================================================================
