SPECIFICATION TSpec
CONSTANTS
  Vars = {"x", "y", "z"}
  Bounds <- BoundsDef
  K = 4
  Eps = 1
  Tol = 2
  MaxRows = 2
  Retry = TRUE
CONSTRAINT Report
CHECK_DEADLOCK FALSE
