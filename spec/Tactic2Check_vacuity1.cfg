SPECIFICATION Spec
CONSTANTS
  V = {"y1", "y2", "z"}
  Elim = {"y1", "y2"}
  TermCo <- TermCoSmall
  Ks <- KsSmall
  Cs <- CsSmall
  MaxCtx = 2
  NoNegation = FALSE
  KeepSelf = FALSE
INVARIANT NeverRefines
CHECK_DEADLOCK FALSE
