SPECIFICATION Spec
CONSTANTS
  Elems = {1, 2, 3}
  MaxLen = 3
CONSTRAINT Emit
CHECK_DEADLOCK FALSE
