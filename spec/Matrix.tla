----------------------------- MODULE Matrix -----------------------------
(***************************************************************************)
(* The conversion layer between term lists and matrix-vector pairs that    *)
(* every LP-backed operation of pacti goes through:                        *)
(*   PolyhedralTerm.term_to_polytope / polytope_to_term                    *)
(*   PolyhedralTermList.termlist_to_polytope / polytope_to_termlist        *)
(*                                                                         *)
(* A term is a record [ks, cf, c]: ks is the key order of its coefficient  *)
(* dictionary (injective), cf the non-zero coefficients in that order, c   *)
(* the constant.  The column order of the matrices is                      *)
(*   Union(ListVars(terms), ListVars(context))                             *)
(* with ListOps!Union (first appearance, terms before context), and the    *)
(* row of a term holds its coefficient in each column, 0 where the term    *)
(* does not mention the variable.                                          *)
(*                                                                         *)
(* Deviation of the code modelled as such: with an EMPTY context the       *)
(* context matrix is np.array([[]]) -- ONE row with NO columns -- whatever *)
(* the variables are (EmptyCtx below).                                     *)
(*                                                                         *)
(* TLC enumerates every (terms, context) within the constants and checks   *)
(* Laws: the matrices mean what the terms mean (on every valuation over a  *)
(* small grid), each variable has exactly one column, the conversion back  *)
(* returns the same terms with their keys in column order and without the  *)
(* zero entries.  In generator mode (Emit) every pair is printed with the  *)
(* results the specification assigns; lib/matrixdrv.py replays all of them *)
(* into the real functions.                                                *)
(***************************************************************************)
EXTENDS Integers, Sequences, FiniteSets, TLC, Json
CONSTANTS VarIds, Coefs, Consts, MaxKeys, MaxTerms, MaxCtx, Grid,
          RowByKeyOrder     \* wrong variant (TRUE): a row holds the term's coefficients in the TERM's key order -- Laws must refute it

CoefSet == {-1, 0, 2}          \* for the cfg files, which cannot hold negative numbers
GridSet == {-1, 0, 2}
Rng(s) == {s[i] : i \in DOMAIN s}
Union(a, b) == a \o SelectSeq(b, LAMBDA x : x \notin Rng(a))      \* ListOps!Union
Inj(s) == \A i, j \in DOMAIN s : i # j => s[i] # s[j]

KeySeqs == {s \in UNION {[1..n -> VarIds] : n \in 0..MaxKeys} : Inj(s)}
Terms == UNION {{[ks |-> s, cf |-> f, c |-> k] : f \in [1..Len(s) -> Coefs \ {0}], k \in Consts} : s \in KeySeqs}
TermLists(n) == UNION {[1..m -> Terms] : m \in 0..n}

Coef(t, v) == IF v \in Rng(t.ks) THEN t.cf[CHOOSE i \in DOMAIN t.ks : t.ks[i] = v] ELSE 0     \* get_coefficient
RECURSIVE ListVarsFrom(_, _, _)
ListVarsFrom(T, i, acc) == IF i > Len(T) THEN acc ELSE ListVarsFrom(T, i + 1, Union(acc, T[i].ks))
ListVars(T) == ListVarsFrom(T, 1, <<>>)                                                       \* TermList.vars
Columns(T, H) == Union(ListVars(T), ListVars(H))
Row(t, vl) == [j \in 1..Len(vl) |-> IF RowByKeyOrder THEN (IF j <= Len(t.cf) THEN t.cf[j] ELSE 0) ELSE Coef(t, vl[j])]                                           \* term_to_polytope
EmptyCtx == << <<>> >>
ToPoly(T, H) ==                                                                               \* termlist_to_polytope
  LET vl == Columns(T, H) IN
  [vars |-> vl,
   a  |-> [i \in 1..Len(T) |-> Row(T[i], vl)],
   b  |-> [i \in 1..Len(T) |-> T[i].c],
   ah |-> IF H = <<>> THEN EmptyCtx ELSE [i \in 1..Len(H) |-> Row(H[i], vl)],
   bh |-> [i \in 1..Len(H) |-> H[i].c]]

\* polytope_to_term: the dictionary is filled in column order and the constructor drops the zero entries
NzIdx(row) == SelectSeq([j \in 1..Len(row) |-> j], LAMBDA j : row[j] # 0)
FromRow(row, k, vl) == LET ix == NzIdx(row) IN
  [ks |-> [n \in 1..Len(ix) |-> vl[ix[n]]], cf |-> [n \in 1..Len(ix) |-> row[ix[n]]], c |-> k]
FromPoly(A, b, vl) == [i \in 1..Len(A) |-> FromRow(A[i], b[i], vl)]                          \* polytope_to_termlist

\* ------------------------------------------------------------------ meaning
Vals == [VarIds -> Grid]
RECURSIVE SumTerm(_, _, _)
SumTerm(t, x, i) == IF i > Len(t.ks) THEN 0 ELSE t.cf[i] * x[t.ks[i]] + SumTerm(t, x, i + 1)
HoldsTerm(t, x) == SumTerm(t, x, 1) <= t.c
RECURSIVE Dot(_, _, _, _)
Dot(row, vl, x, j) == IF j > Len(row) THEN 0 ELSE row[j] * x[vl[j]] + Dot(row, vl, x, j + 1)
SameTerm(s, t) == s.c = t.c /\ Rng(s.ks) = Rng(t.ks) /\ \A v \in VarIds : Coef(s, v) = Coef(t, v)

VARIABLES T, H
Init == T \in TermLists(MaxTerms) /\ H \in TermLists(MaxCtx)
Next == UNCHANGED <<T, H>>
Spec == Init /\ [][Next]_<<T, H>>

Laws ==
  LET p == ToPoly(T, H) IN
  /\ Inj(p.vars)                                                                               \* one column per variable
  /\ Rng(p.vars) = UNION {Rng(T[i].ks) : i \in DOMAIN T} \cup UNION {Rng(H[i].ks) : i \in DOMAIN H}
  /\ \A i \in DOMAIN T : Len(p.a[i]) = Len(p.vars)
  /\ H # <<>> => \A i \in DOMAIN H : Len(p.ah[i]) = Len(p.vars)
  /\ Len(p.b) = Len(T) /\ Len(p.bh) = Len(H)
  /\ \A x \in Vals :                                                                           \* the rows mean what the terms mean
       /\ \A i \in DOMAIN T : HoldsTerm(T[i], x) <=> (Dot(p.a[i], p.vars, x, 1) <= p.b[i])
       /\ H # <<>> => \A i \in DOMAIN H : HoldsTerm(H[i], x) <=> (Dot(p.ah[i], p.vars, x, 1) <= p.bh[i])
  /\ LET back == FromPoly(p.a, p.b, p.vars) IN                                                 \* and the way back loses nothing
       /\ Len(back) = Len(T)
       /\ \A i \in DOMAIN T : SameTerm(back[i], T[i]) /\ Inj(back[i].ks) /\ \A n \in DOMAIN back[i].cf : back[i].cf[n] # 0
       /\ ToPoly(back, H).a = p.a /\ ToPoly(back, H).vars = p.vars                             \* stable under a second conversion
  /\ ListVars(T \o H) = p.vars                                                                 \* same columns as the concatenation (what `a | g` would give)

Emit == PrintT(<<"CASE", ToJson([t |-> T, h |-> H, p |-> ToPoly(T, H), back |-> FromPoly(ToPoly(T, H).a, ToPoly(T, H).b, ToPoly(T, H).vars)])>>)
=====================================================================
