SPECIFICATION Spec
CONSTANTS
  MaxLen = 1000
  NSeed = 3
  EmitLen = 12
  OpFilter <- FocusOps
  NParam = 4
CONSTRAINT Emit
CHECK_DEADLOCK FALSE
