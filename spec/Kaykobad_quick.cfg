SPECIFICATION Spec
CONSTANTS
  VarIds = {1, 2, 3}
  CoT <- SetA
  CoR <- SetB
  ConstT = {3}
  ConstR = {2}
  MaxCtx = 2
  KeptOnly <- NoVars
  ElimLists <- Lists1
  SignAny = FALSE
  NoAccumulation = FALSE
INVARIANT Sound
CHECK_DEADLOCK FALSE
