SPECIFICATION TSpec
CONSTANTS
  Vars = {"x", "y", "z", "w"}
  MaxG = 2
  Strong = FALSE
  Ops = {"compose", "quotient", "merge"}
CONSTRAINT Report
CHECK_DEADLOCK FALSE
