SPECIFICATION TSpec
CONSTANTS
  Vars = {"x", "y", "z"}
  MaxG = 2
  Strong = FALSE
  Ops = {"compose", "quotient", "merge"}
CONSTRAINT Report
CHECK_DEADLOCK FALSE
