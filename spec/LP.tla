------------------------------ MODULE LP ------------------------------
(***************************************************************************)
(* The queries that pacti answers with a linear program, specified by      *)
(* their TRUE answer (C03 refinement, C07 simplification, C11 membership   *)
(* and emptiness, C12 optimisation).  The true answer is not searched for: *)
(* it is established from untrusted hints that TLC checks -- exact Farkas  *)
(* certificates that do not use the box (facts about the unbounded         *)
(* polyhedron), witness points, recession rays.                            *)
(***************************************************************************)
EXTENDS Poly

(* ---- C03: containment of constraint lists ------------------------------ *)
\* "true"  : every right row has an exact box-free certificate (or the left side is infeasible)
\* "false" : some point of the left side breaks a right row by more than tol
\* "open"  : neither (tolerance gap, or hints missing) -- no demand on the implementation
ListTruth(L, R, nameSeq, hs) ==
  IF Len(hs) # Len(R) THEN "malformed"
  ELSE IF \E j \in DOMAIN R : hs[j].kind = "witness" /\ WitnessOK(L, nameSeq, R[j], hs[j]) THEN "false"
  ELSE IF \A j \in DOMAIN R : \/ (hs[j].kind = "cert" /\ NoBox(L, hs[j]) /\ FarkasExact(L, nameSeq, R[j], hs[j]))
                              \/ (hs[j].kind = "infeasible" /\ NoBox(L, hs[j]) /\ InfeasOK(L, nameSeq, hs[j]))    \* nothing satisfies L: it refines any row,
                                                                                                                 \* also one over variables L never mentions
       THEN "true"
  ELSE "open"
And3(x, y) == IF x = "malformed" \/ y = "malformed" THEN "malformed"
              ELSE IF x = "false" \/ y = "false" THEN "false"
              ELSE IF x = "true" /\ y = "true" THEN "true" ELSE "open"
\* contract refinement c1 <= c2: assumptions no stronger, guarantees no weaker under c2's assumptions
ContractTruth(c1, c2, nameSeq, hs) ==
  And3(ListTruth(c2.a, c1.a, nameSeq, hs.asm), ListTruth(c1.g \o c2.a, c2.g \o c2.a, nameSeq, hs.gua))
RefinesJudge(truth, ans) ==
  IF truth = "malformed" THEN <<"malformed", "hints">>
  ELSE IF ans \notin {"true", "false"} THEN <<"violation", "exception:" \o ans>>
  ELSE IF truth = "open" THEN <<"unjudged", "gap">>
  ELSE IF truth = ans THEN <<"ok", truth>>
  ELSE IF truth = "true" THEN <<"violation", "false-negative">> ELSE <<"violation", "false-positive">>

(* ---- C07: simplification ------------------------------------------------ *)
SameRow(r, s) == r.co = s.co /\ r.c = s.c /\ r.k = s.k
Selection(S, R) == \A i \in DOMAIN R : \E j \in DOMAIN S : SameRow(R[i], S[j])
Others(R, i) == SubSeq(R, 1, i - 1) \o SubSeq(R, i + 1, Len(R))
\* kept row i is droppable iff the context and the other kept rows imply it with margin
IrredundantDecide(ctx, R, i, nameSeq, h) ==
  LET hyp == ctx \o Others(R, i) IN
  IF h.kind = "cert" /\ FarkasMargin(hyp, nameSeq, R[i], h) THEN "redundant"
  ELSE IF h.kind = "witness" /\ InBox(Rng(nameSeq), h.q, h.d) /\ AllHoldAt(hyp, h.q, h.d)
          /\ Excess(R[i], h.q, h.d) * 10000 + (R[i].k + Abs(R[i].c)) * h.d > 0 THEN "needed"
  ELSE "open"
\* e: [S, ctx, R, exc, ok, names, g, hints: [equiv, irred, infeas]]
SimplifyJudge(e) ==
  IF e.exc # "none"
  THEN IF e.exc # "ValueError" THEN <<"violation", "exception:" \o e.exc>>
       ELSE IF e.hints.infeas.kind = "infeasible" /\ NoBox(e.ctx \o e.S, e.hints.infeas) /\ InfeasOK(e.ctx \o e.S, e.names, e.hints.infeas)
            THEN <<"ok", "infeasible">>
       ELSE IF e.hints.infeas.kind = "witness" /\ InBox(Rng(e.names), e.hints.infeas.q, e.hints.infeas.d)
               /\ AllHoldAt(e.ctx \o e.S, e.hints.infeas.q, e.hints.infeas.d)
            THEN <<"violation", "valueerror-on-feasible-system">>
       ELSE <<"unjudged", "valueerror">>
  ELSE IF ~e.ok THEN (IF e.eqok /\ ~Selection(e.S, e.R) THEN <<"violation", "selection">>     \* rows of wide magnitude can still be COMPARED exactly
                      ELSE <<"unjudged", "snap">>)
  ELSE IF ~Selection(e.S, e.R) THEN <<"violation", "selection">>
  ELSE IF Len(e.hints.equiv) # Len(e.S) \/ Len(e.hints.irred) # Len(e.R) THEN <<"malformed", "hints">>
  ELSE LET eq == [j \in DOMAIN e.S |-> Decide(e.ctx \o e.R, e.names, e.S[j], e.hints.equiv[j], e.g)]
           ir == [i \in DOMAIN e.R |-> IrredundantDecide(e.ctx, e.R, i, e.names, e.hints.irred[i])]
       IN IF \E j \in DOMAIN e.S : eq[j] = "broken" THEN <<"violation", "equivalence:" \o ToString(CHOOSE j \in DOMAIN e.S : eq[j] = "broken")>>
          ELSE IF \E i \in DOMAIN e.R : ir[i] = "redundant" THEN <<"violation", "redundant:" \o ToString(CHOOSE i \in DOMAIN e.R : ir[i] = "redundant")>>
          ELSE IF (\A j \in DOMAIN e.S : eq[j] = "holds") /\ (\A i \in DOMAIN e.R : ir[i] = "needed") THEN <<"ok", "simplified">>
          ELSE <<"unjudged", "open">>

(* ---- C11: membership and emptiness -------------------------------------- *)
\* a behaviour b = q/d ; ans in {"true","false","ValueError",...}
ContainsJudge(e) ==
  LET unassigned == RowsVars(e.L) \ DOMAIN e.q IN
  IF unassigned # {} THEN (IF e.ans = "ValueError" THEN <<"ok", "unassigned">> ELSE <<"violation", "unassigned-variable:" \o e.ans>>)
  ELSE IF e.ans \notin {"true", "false"} THEN <<"violation", "exception:" \o e.ans>>
  ELSE IF AllHoldAt(e.L, e.q, e.d) = (e.ans = "true") THEN <<"ok", e.ans>>
  ELSE <<"violation", IF e.ans = "true" THEN "false-positive" ELSE "false-negative">>
EmptyTruth(L, nameSeq, h) ==
  IF h.kind = "infeasible" /\ NoBox(L, h) /\ InfeasOK(L, nameSeq, h) THEN "true"
  ELSE IF h.kind = "witness" /\ InBox(Rng(nameSeq), h.q, h.d) /\ AllHoldAt(L, h.q, h.d) THEN "false"
  ELSE "open"
EmptyJudge(e) == RefinesJudge(EmptyTruth(e.L, e.names, e.hints.empty), e.ans)
\* consistency: a behaviour contained in a list is contained in everything that list refines
ConsistencyJudge(e) ==
  IF e.refines = "true" /\ e.inL = "true" /\ e.inR = "false" THEN <<"violation", "membership-vs-refinement">>
  ELSE <<"ok", "consistent">>

(* ---- C12: optimisation --------------------------------------------------- *)
ObjRow(obj, vn, vd) == Row([v \in DOMAIN obj |-> obj[v] * vd], vn, vd)     \* obj.x <= vn/vd
NegObj(obj) == [v \in DOMAIN obj |-> -obj[v]]
\* hint h: [kind, q, d, vn, vd, ray, lam, mu]
OptTruth(rows, obj, nameSeq, h) ==
  IF h.kind = "optimal"
       /\ h.vd > 0 /\ h.d > 0 /\ AllHoldAt(rows, h.q, h.d)       \* C12 is not read inside a box: a feasible point and a matching dual bound
       /\ PSum(DOMAIN obj, LAMBDA v : obj[v] * Val(h.q, v)) * h.vd = h.vn * h.d
       /\ NoBox(rows, h) /\ FarkasExact(rows, nameSeq, ObjRow(obj, h.vn, h.vd), h)
  THEN "optimal"
  ELSE IF h.kind = "unbounded"
       /\ InBox(Rng(nameSeq), h.q, h.d) /\ AllHoldAt(rows, h.q, h.d)
       /\ \A i \in DOMAIN rows : Dot(rows[i], h.ray) <= 0
       /\ PSum(DOMAIN obj, LAMBDA v : obj[v] * Val(h.ray, v)) > 0
  THEN "unbounded"
  ELSE IF h.kind = "infeasible" /\ NoBox(rows, h) /\ InfeasOK(rows, nameSeq, h) THEN "infeasible"
  ELSE "open"
\* returned value rn/rd within 1e-6 relative of the certified optimum vn/vd
Close6(rn, rd, vn, vd) ==
  LET D == Abs(rn * vd - vn * rd)  m == IF Abs(vn) > vd THEN Abs(vn) ELSE vd IN
  rd > 0 /\ (D = 0 \/ D * 1000000 <= rd * m)
\* e: [rows, obj, max, ans in {"value","none","ValueError",...}, rn, rd, names, hints.opt]
OptimizeJudge(e) ==
  LET obj == IF e.max THEN e.obj ELSE NegObj(e.obj)
      h == e.hints.opt
      truth == OptTruth(e.rows, obj, e.names, h)
      rn == IF e.max THEN e.rn ELSE -e.rn IN
  \* IncompatibleArgsError is a ValueError (a subclass): a documented refusal, and like ValueError the right answer only when nothing satisfies the contract
  IF e.ans \notin {"value", "none", "ValueError", "IncompatibleArgsError"} THEN <<"violation", "exception:" \o e.ans>>
  ELSE IF truth = "open" THEN <<"unjudged", "no-certificate">>
  ELSE IF truth = "infeasible" THEN (IF e.ans \in {"ValueError", "IncompatibleArgsError"} THEN <<"ok", "infeasible">> ELSE <<"violation", "infeasible-answered-" \o e.ans>>)
  ELSE IF truth = "unbounded" THEN (IF e.ans = "none" THEN <<"ok", "unbounded">> ELSE <<"violation", "unbounded-answered-" \o e.ans>>)
  ELSE IF e.ans # "value" THEN <<"violation", "optimum-exists-answered-" \o e.ans>>
  ELSE IF ~e.ok THEN <<"unjudged", "snap">>
  ELSE IF Close6(rn, e.rd, h.vn, h.vd) THEN <<"ok", "optimal">> ELSE <<"violation", "wrong-optimum">>
=====================================================================
