----------------------------- MODULE LPAlgos -----------------------------
(***************************************************************************)
(* The algorithms of polyhedra.py that consume a linear-programming        *)
(* oracle -- is_polytope_empty, verify_polytope_containment (refines),     *)
(* reduce_polytope (simplify) -- transcribed statement by statement over a *)
(* NONDETERMINISTIC SOLVER ENVIRONMENT (C03, C07, C11 at design level).    *)
(*                                                                         *)
(* Constraint rows are axis parallel:  [v, s, c]  means  s*v <= c  with    *)
(* s in {1,-1} and c an integer in units of 1/K, so the true answer of     *)
(* every LP is computed by TLC itself (interval arithmetic per variable).  *)
(* The environment may answer an optimal LP with its true value perturbed  *)
(* by up to Eps units (floating-point round-off) and must report           *)
(* infeasibility / unboundedness truthfully.  Tol is the tolerance the     *)
(* code applies when it compares an optimum with a bound (pinned tree: 0,  *)
(* repaired tree: > Eps).  The environment is an ASSUMPTION about scipy/   *)
(* HiGHS; conformance of recorded linprog calls with it is checked by      *)
(* TraceLPAlgos.tla.                                                       *)
(***************************************************************************)
EXTENDS Integers, Sequences, FiniteSets, TLC
CONSTANTS Vars, Bounds,   \* variables; set of admissible constants (integers, units of 1/K)
          K,              \* one unit of the code's "+1" relaxation, in model units
          Eps, Tol, MaxRows,
          Retry           \* optimize solves again without presolve when the first answer is neither optimal nor unbounded
BoundsDef == {-8, -4, 0, 4, 8}
BoundsSmall == {-4, 0, 4}
Rows == [v : Vars, s : {1, -1}, c : Bounds]
Lists == UNION {[1..n -> Rows] : n \in 0..MaxRows}

(* ---- truth of an LP over axis-parallel rows ---------------------------- *)
Inf == 1000000
Uppers(rows, v) == {rows[i].c : i \in {j \in DOMAIN rows : rows[j].v = v /\ rows[j].s = 1}}
Lowers(rows, v) == {-rows[i].c : i \in {j \in DOMAIN rows : rows[j].v = v /\ rows[j].s = -1}}
MinS(S) == IF S = {} THEN Inf ELSE CHOOSE x \in S : \A y \in S : x <= y
MaxS(S) == IF S = {} THEN -Inf ELSE CHOOSE x \in S : \A y \in S : x >= y
Hi(rows, v) == MinS(Uppers(rows, v))
Lo(rows, v) == MaxS(Lowers(rows, v))
Feasible(rows) == \A v \in Vars : Lo(rows, v) <= Hi(rows, v)
\* max of  s*v  over the rows: [k |-> "infeasible" | "unbounded" | "value", x |-> the value]
MaxOf(v, s, rows) ==
  IF ~Feasible(rows) THEN [k |-> "infeasible", x |-> 0]
  ELSE IF s = 1 THEN (IF Hi(rows, v) = Inf THEN [k |-> "unbounded", x |-> 0] ELSE [k |-> "value", x |-> Hi(rows, v)])
  ELSE (IF Lo(rows, v) = -Inf THEN [k |-> "unbounded", x |-> 0] ELSE [k |-> "value", x |-> -Lo(rows, v)])
AtMost(m, bound) == m.k = "value" /\ m.x <= bound

(* ---- the solver environment -------------------------------------------- *)
\* with presolve the solver may report a feasible UNBOUNDED problem as infeasible (observed with HiGHS)
AnswersPresolve(v, s, rows) ==
  LET m == MaxOf(v, s, rows) IN
  IF m.k = "unbounded" THEN {[st |-> 3, fun |-> 0], [st |-> 2, fun |-> 0]}
  ELSE IF m.k = "infeasible" THEN {[st |-> 2, fun |-> 0]}
  ELSE {[st |-> 0, fun |-> -(m.x + e)] : e \in (-Eps)..Eps}
\* answer records [st, fun]: linprog MINIMISES, so fun = -(max) for objective rows; fun = 0 for feasibility
Answers(kind, v, s, rows) ==
  IF kind = "feas"
  THEN (IF Feasible(rows) THEN {[st |-> 0, fun |-> 0]} ELSE {[st |-> 2, fun |-> 0]})
  ELSE LET m == MaxOf(v, s, rows) IN
       IF m.k = "infeasible" THEN {[st |-> 2, fun |-> 0]}
       ELSE IF m.k = "unbounded" THEN {[st |-> 3, fun |-> 0]}
       ELSE {[st |-> 0, fun |-> -(m.x + e)] : e \in (-Eps)..Eps}

VARIABLES alg, L, R, pc, i, kept, ans, calls
vars == <<alg, L, R, pc, i, kept, ans, calls>>
\* alg in {"refines", "is_empty", "reduce"}; for reduce: L = list to simplify, R = context, kept = working copy

Init ==
  /\ alg \in {"refines", "is_empty", "reduce", "optimize"}
  /\ L \in Lists /\ R \in Lists
  /\ (alg = "is_empty" => R = <<>>)
  /\ (alg = "optimize" => Len(R) = 1)          \* R[1] carries the objective s*v (its constant is immaterial)
  /\ pc = "start" /\ i = 1 /\ kept = L /\ ans = "none" /\ calls = <<>>

Log(kind, row, rows, a) == calls' = Append(calls, [kind |-> kind, row |-> row, n |-> Len(rows), st |-> a.st, fun |-> a.fun])
Finish(x) == pc' = "done" /\ ans' = x
Relaxed(r) == [r EXCEPT !.c = r.c + K]
NoRow == [v |-> CHOOSE v \in Vars : TRUE, s |-> 1, c |-> 0]

(* ---- is_polytope_empty (also the two pre-checks of refines) ------------- *)
EmptyCheck(rows, ifEmpty, ifNot) ==
  IF Len(rows) = 0 THEN ifNot /\ UNCHANGED calls       \* no constraint: not empty, no LP is solved
  ELSE \E a \in Answers("feas", NoRow.v, 1, rows) :
         /\ Log("feas", NoRow, rows, a)
         /\ IF a.st = 2 THEN ifEmpty ELSE IF a.st \in {0, 3} THEN ifNot ELSE Finish("ValueError")

IsEmptyStep ==
  /\ alg = "is_empty" /\ pc = "start"
  /\ EmptyCheck(L, Finish("true"), Finish("false"))
  /\ UNCHANGED <<alg, L, R, i, kept>>

(* ---- PolyhedralTermList.refines / verify_polytope_containment ----------- *)
RefinesStart ==
  /\ alg = "refines" /\ pc = "start"
  /\ IF Len(R) = 0 THEN Finish("true")                 \* other.lacks_constraints()
     ELSE IF Len(L) = 0 THEN Finish("false")           \* self.lacks_constraints()
     ELSE pc' = "emptyL" /\ UNCHANGED ans
  /\ UNCHANGED <<alg, L, R, i, kept, calls>>
RefinesEmptyL ==
  /\ alg = "refines" /\ pc = "emptyL"
  /\ EmptyCheck(L, Finish("true"), pc' = "emptyR" /\ UNCHANGED ans)
  /\ UNCHANGED <<alg, L, R, i, kept>>
RefinesEmptyR ==
  /\ alg = "refines" /\ pc = "emptyR"
  /\ EmptyCheck(R, Finish("false"), pc' = "loop" /\ UNCHANGED ans)
  /\ UNCHANGED <<alg, L, R, i, kept>>
RefinesLoop ==
  /\ alg = "refines" /\ pc = "loop"
  /\ IF i > Len(R) THEN Finish("true") /\ UNCHANGED <<i, calls>>
     ELSE LET r == R[i]  rows == Append(L, Relaxed(r)) IN
          \E a \in Answers("max", r.v, r.s, rows) :
            /\ Log("max", r, rows, a)
            /\ IF a.st = 2 THEN Finish("false") /\ UNCHANGED i
               ELSE IF -a.fun <= r.c + Tol THEN i' = i + 1 /\ UNCHANGED <<pc, ans>>
               ELSE Finish("false") /\ UNCHANGED i
  /\ UNCHANGED <<alg, L, R, kept>>

(* ---- reduce_polytope (simplify): drop row i when maximising it over the others --- *)
(* (itself relaxed by one unit) and the context stays within its bound               *)
Remove(s, j) == SubSeq(s, 1, j - 1) \o SubSeq(s, j + 1, Len(s))
ReduceStart ==
  /\ alg = "reduce" /\ pc = "start"
  /\ IF Len(L) = 0 \/ (Len(L) = 1 /\ Len(R) = 0) THEN pc' = "done" /\ ans' = "returned" ELSE pc' = "loop" /\ UNCHANGED ans
  /\ UNCHANGED <<alg, L, R, i, kept, calls>>
ReduceLoop ==
  /\ alg = "reduce" /\ pc = "loop"
  /\ IF i > Len(kept) THEN pc' = "done" /\ ans' = "returned" /\ UNCHANGED <<i, kept, calls>>
     ELSE LET r == kept[i]
              rows == [kept EXCEPT ![i] = Relaxed(r)] \o R IN
          \E a \in Answers("max", r.v, r.s, rows) :
            /\ Log("max", r, rows, a)
            /\ IF a.st = 3 \/ (a.st = 0 /\ -a.fun <= r.c)
               THEN kept' = Remove(kept, i) /\ UNCHANGED i         \* "Can remove"
               ELSE kept' = kept /\ i' = i + 1
            /\ IF a.st = 2 THEN pc' = "done" /\ ans' = "ValueError" ELSE UNCHANGED <<pc, ans>>
  /\ UNCHANGED <<alg, L, R>>

(* ---- PolyhedralTermList.optimize: maximise s*v over L ----------------------- *)
OptStart ==
  /\ alg = "optimize" /\ pc = "start"
  /\ IF Len(L) = 0 THEN Finish("none") /\ UNCHANGED calls          \* no constraint at all: unbounded
     ELSE \E a \in AnswersPresolve(R[1].v, R[1].s, L) :
            /\ Log("max", R[1], L, a)
            /\ IF a.st = 3 THEN Finish("none")
               ELSE IF a.st = 0 THEN Finish("value")
               ELSE IF Retry THEN pc' = "again" /\ UNCHANGED ans
               ELSE Finish("ValueError")
  /\ UNCHANGED <<alg, L, R, i, kept>>
OptAgain ==
  /\ alg = "optimize" /\ pc = "again"
  /\ \E a \in Answers("max", R[1].v, R[1].s, L) :
       /\ Log("max", R[1], L, a)
       /\ IF a.st = 3 THEN Finish("none") ELSE IF a.st = 0 THEN Finish("value") ELSE Finish("ValueError")
  /\ UNCHANGED <<alg, L, R, i, kept>>

Next == OptStart \/ OptAgain \/ IsEmptyStep \/ RefinesStart \/ RefinesEmptyL \/ RefinesEmptyR \/ RefinesLoop \/ ReduceStart \/ ReduceLoop
Spec == Init /\ [][Next]_vars

(* ---- properties --------------------------------------------------------- *)
Done == pc = "done"
\* true containment of L in R, with slack d on every bound of R
Contained(d) == ~Feasible(L) \/ \A j \in DOMAIN R :
                   AtMost(MaxOf(R[j].v, R[j].s, L), R[j].c + d)
\* C03: every feasible list refines itself and any sub-list of itself
Reflexive == (Done /\ alg = "refines" /\ Feasible(L) /\ \A j \in DOMAIN R : \E k \in DOMAIN L : R[j] = L[k]) => ans = "true"
\* C03: answers are right up to the round-off the environment may introduce
RefinesSound == (Done /\ alg = "refines" /\ ans = "true") => Contained(Tol + Eps)
RefinesComplete == (Done /\ alg = "refines" /\ ans = "false" /\ Len(R) > 0 /\ Len(L) > 0) => ~Contained(-(Eps + 1)) \/ ~Feasible(R)
\* C11: emptiness is decided exactly
EmptyExact == (Done /\ alg = "is_empty") => ans = (IF Feasible(L) THEN "false" ELSE "true")
\* C07: the kept rows are a selection, equivalent in context up to round-off; ValueError only if infeasible
Sel(s, t) == \A j \in DOMAIN s : \E k \in DOMAIN t : s[j] = t[k]
ReduceSelection == (Done /\ alg = "reduce" /\ ans = "returned") => Sel(kept, L)
ReduceEquivalent == (Done /\ alg = "reduce" /\ ans = "returned" /\ Feasible(L \o R)) =>
   \A j \in DOMAIN L : AtMost(MaxOf(L[j].v, L[j].s, kept \o R), L[j].c + Eps)
ReduceErrorOnlyIfInfeasible == (Done /\ alg = "reduce" /\ ans = "ValueError") => ~Feasible(L \o R)
NoOtherError == Done => ans # "ValueError" \/ alg \in {"reduce", "optimize"}
\* C12: the value within round-off, None iff unbounded over a non-empty set, ValueError iff infeasible
OptExact == (Done /\ alg = "optimize") =>
   LET m == MaxOf(R[1].v, R[1].s, L) IN
   CASE m.k = "unbounded" -> ans = "none"
     [] m.k = "infeasible" -> ans = "ValueError"
     [] OTHER -> ans = "value" /\ LET f == -calls[Len(calls)].fun IN f - m.x <= Eps /\ m.x - f <= Eps
=====================================================================
