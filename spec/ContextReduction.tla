------------------------- MODULE ContextReduction -------------------------
(***************************************************************************)
(* _context_reduction of polyhedra.py, the step tactics 1 and 5 share      *)
(* once they have CHOSEN one context row per variable to eliminate         *)
(* (solve_for_variables through sympy, then substitute_variable):          *)
(* the chosen rows are read as EQUALITIES and solved for the variables to  *)
(* eliminate, and the solutions are substituted into the term.             *)
(* Here for one or two variables (Cramer's rule), in integer arithmetic:   *)
(* the result is  [num, c, den]  with one positive denominator.            *)
(*                                                                         *)
(* Laws (TLC, every state): the result mentions no eliminated variable;    *)
(* at every grid point where the chosen rows hold WITH EQUALITY the        *)
(* result's slack equals the term's ( lhs - c , scaled by den ); and the   *)
(* certificate identity  den * term - result = SUM m_i row_i  holds as     *)
(* linear forms for the integers m_i = det * mu_i (so with mu >= 0 the     *)
(* rows and the result imply the term -- the sign condition is the         *)
(* selecting tactic's business, not this step's).  A wrong variant (the    *)
(* solution of the second variable used for both) is refuted.              *)
(* Generator mode: every state with the result; lib/crdrv.py calls the     *)
(* real _context_reduction with the row selection replaced by the          *)
(* generated rows.                                                         *)
(***************************************************************************)
EXTENDS Integers, Sequences, FiniteSets, TLC, Json
CONSTANTS VarIds, CoT, CoR, ConstT, ConstR, Grid, SameSolution
SetA == {-2, 0, 1}
SetB == {-1, 0, 2}
SetG == {-2, -1, 0, 1, 2}
Abs(n) == IF n < 0 THEN -n ELSE n
Sgn(n) == IF n > 0 THEN 1 ELSE IF n < 0 THEN -1 ELSE 0
\* a linear form: [co : VarIds -> Int, c : Int]  read  SUM co[v] v <= c
Form(co, c) == [co |-> co, c |-> c]

\* solutions of the chosen rows read as equalities, as numerators over `det`:  v = (k - SUM a[w] w) / det  for w not eliminated
Det(F, R) == IF Len(F) = 1 THEN R[1].co[F[1]] ELSE R[1].co[F[1]] * R[2].co[F[2]] - R[1].co[F[2]] * R[2].co[F[1]]
\* Sol(F, R, i): [a, k] with  det * F[i] = k - SUM_{w not in F} a[w] w
Sol(F, R, i) ==
  IF Len(F) = 1
  THEN [a |-> [w \in VarIds |-> IF w = F[1] THEN 0 ELSE R[1].co[w]], k |-> R[1].c]
  ELSE LET a11 == R[1].co[F[1]]  a12 == R[1].co[F[2]]  a21 == R[2].co[F[1]]  a22 == R[2].co[F[2]]
           j == IF SameSolution THEN 2 ELSE i IN
       IF j = 1 THEN [a |-> [w \in VarIds |-> IF w \in {F[1], F[2]} THEN 0 ELSE R[1].co[w] * a22 - a12 * R[2].co[w]], k |-> R[1].c * a22 - a12 * R[2].c]
                ELSE [a |-> [w \in VarIds |-> IF w \in {F[1], F[2]} THEN 0 ELSE a11 * R[2].co[w] - a21 * R[1].co[w]], k |-> a11 * R[2].c - a21 * R[1].c]
\* substitute into the term:  SUM_{w not in F} t[w] w + SUM_i t[F[i]] * (k_i - a_i . w) / det <= c ;  multiplied by |det|
RECURSIVE SumA(_, _, _, _, _), SumK(_, _, _, _)
SumA(t, F, R, w, i) == IF i > Len(F) THEN 0 ELSE t.co[F[i]] * Sol(F, R, i).a[w] + SumA(t, F, R, w, i + 1)
SumK(t, F, R, i) == IF i > Len(F) THEN 0 ELSE t.co[F[i]] * Sol(F, R, i).k + SumK(t, F, R, i + 1)
InF(F, w) == \E i \in DOMAIN F : F[i] = w
Reduce(t, F, R) ==
  LET d == Det(F, R)  s == Sgn(d) IN
  [num |-> [w \in VarIds |-> IF InF(F, w) THEN 0 ELSE Abs(d) * t.co[w] - s * SumA(t, F, R, w, 1)],
   c |-> Abs(d) * t.c - s * SumK(t, F, R, 1), den |-> Abs(d)]

\* ---- meaning
RECURSIVE Dot(_, _, _)
Dot(co, x, vs) == IF vs = {} THEN 0 ELSE LET w == CHOOSE w \in vs : TRUE IN co[w] * x[w] + Dot(co, x, vs \ {w})
EqAt(r, x) == Dot(r.co, x, VarIds) = r.c
\* multipliers of the certificate, as integers over det:  A^T m = det * p  (p = the term's eliminated coefficients)
Mult(t, F, R, i) ==
  IF Len(F) = 1 THEN t.co[F[1]]
  ELSE LET a11 == R[1].co[F[1]]  a12 == R[1].co[F[2]]  a21 == R[2].co[F[1]]  a22 == R[2].co[F[2]]  p1 == t.co[F[1]]  p2 == t.co[F[2]] IN
       IF i = 1 THEN p1 * a22 - p2 * a21 ELSE a11 * p2 - a12 * p1

VARIABLES t, F, R
Forms(S, C) == {Form(co, c) : co \in [VarIds -> S], c \in C}
FLists == {<<1>>, <<2>>, <<1, 2>>, <<2, 1>>}
Init == /\ t \in Forms(CoT, ConstT) /\ F \in FLists
        /\ R \in [1..Len(F) -> Forms(CoR, ConstR)]
        /\ Det(F, R) # 0
        /\ \E i \in DOMAIN F : t.co[F[i]] # 0                       \* the term mentions a variable to eliminate
Next == UNCHANGED <<t, F, R>>
Spec == Init /\ [][Next]_<<t, F, R>>

Laws ==
  LET r == Reduce(t, F, R)  d == Det(F, R)  s == Sgn(d) IN
  /\ r.den > 0 /\ \A w \in VarIds : InF(F, w) => r.num[w] = 0
  /\ \A x \in [VarIds -> Grid] :
       (\A i \in DOMAIN R : EqAt(R[i], x)) => (Dot(r.num, x, VarIds) - r.c = r.den * (Dot(t.co, x, VarIds) - t.c))
  \* den * term - result = SUM (s * m_i) row_i , coefficient by coefficient and for the constants
  /\ \A w \in VarIds : r.den * t.co[w] - r.num[w] = s * (Mult(t, F, R, 1) * R[1].co[w] + (IF Len(F) = 2 THEN Mult(t, F, R, 2) * R[2].co[w] ELSE 0))
  /\ r.den * t.c - r.c = s * (Mult(t, F, R, 1) * R[1].c + (IF Len(F) = 2 THEN Mult(t, F, R, 2) * R[2].c ELSE 0))

Emit == PrintT(<<"CASE", ToJson([t |-> t, f |-> F, rows |-> R, res |-> Reduce(t, F, R)])>>)
=====================================================================
