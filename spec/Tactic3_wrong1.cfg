SPECIFICATION Spec
CONSTANTS
  VarIds = {1, 2, 3}
  CoT <- SetA
  CoC <- SetB
  ConstT = {3}
  ConstC = {2}
  MaxCtx = 1
  Grid <- SetG
  InvertRatio = TRUE
INVARIANT Laws
CHECK_DEADLOCK FALSE
