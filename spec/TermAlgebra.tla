--------------------------- MODULE TermAlgebra ---------------------------
(***************************************************************************)
(* The term-level arithmetic of PolyhedralTerm that the tactics and the    *)
(* evaluation are built from, as the code does it:                         *)
(*   multiply(f)              every coefficient and the constant times f   *)
(*   t + e                    keys of t, then the new keys of e            *)
(*                            (list_union); coefficients and constants add;*)
(*                            a sum of zero leaves no entry                *)
(*   remove_variable(v)       the entry goes, the order stays              *)
(*   isolate_variable(v)      a v + r <= c read as an EQUALITY:            *)
(*                            v = SUM (-r_u / a) u - (-c / a); ValueError  *)
(*                            when v does not occur                        *)
(*   substitute_variable(v,e) e is read as  v = SUM e_u u - e.c :          *)
(*                            remove v, add coefficient(v) * e; a copy     *)
(*                            when v does not occur                        *)
(*   get_sign / get_polarity  sign of the coefficient (0 counts as +);     *)
(*                            KeyError when the variable does not occur    *)
(* A term is [ks, cf, c, den]: key order, integer numerators, integer      *)
(* constant numerator, one positive denominator for all of them (the code  *)
(* divides in isolate_variable; the inputs here make the quotients dyadic, *)
(* so the floats of the code are exact and are compared as such).          *)
(*                                                                         *)
(* Laws (TLC, every state): values of the left-hand sides multiply / add;  *)
(* where t holds with equality, the isolated expression gives the value of *)
(* v; the substituted term holds at x exactly when t holds at x with v set *)
(* to the value of e's expression; a removed / substituted variable is     *)
(* gone; no zero entry is kept.  A wrong variant (isolate keeps the sign   *)
(* of the constant, D1 of the pinned tree) must be refuted.                *)
(* Generator mode: every state with all results, replayed by               *)
(* lib/termdrv.py into the real methods.                                   *)
(***************************************************************************)
EXTENDS Integers, Sequences, FiniteSets, TLC, Json
CONSTANTS VarIds, CoT, CoE, ConstT, ConstE, Factors, Grid, IsolateKeepsSign
SetA == {-2, 0, 1}
SetB == {-1, 0, 2}
SetF == {-1, 2}
SetG == {-2, 0, 1, 3}
SetC == {-1, 3}

Rng(s) == {s[i] : i \in DOMAIN s}
Order == CHOOSE f \in [1..Cardinality(VarIds) -> VarIds] : \A i, j \in 1..Cardinality(VarIds) : i < j => f[i] < f[j]
Abs(n) == IF n < 0 THEN -n ELSE n
Sgn(n) == IF n > 0 THEN 1 ELSE IF n < 0 THEN -1 ELSE 0
\* a term built from a coefficient function: keys in the order of the variables, zero entries left out (the constructor)
Mk(co, c) == LET ks == SelectSeq(Order, LAMBDA v : co[v] # 0) IN [ks |-> ks, cf |-> [i \in 1..Len(ks) |-> co[ks[i]]], c |-> c, den |-> 1]
Coef(t, v) == IF v \in Rng(t.ks) THEN t.cf[CHOOSE i \in DOMAIN t.ks : t.ks[i] = v] ELSE 0
Union(a, b) == a \o SelectSeq(b, LAMBDA x : x \notin Rng(a))
\* from a key order and a numerator function (zero entries left out)
Build(ks, num, c, den) == LET kk == SelectSeq(ks, LAMBDA v : num[v] # 0) IN [ks |-> kk, cf |-> [i \in 1..Len(kk) |-> num[kk[i]]], c |-> c, den |-> den]

Mul(t, f) == Build(t.ks, [v \in VarIds |-> f * Coef(t, v)], f * t.c, t.den)
Add(t, e) == Build(Union(t.ks, e.ks), [v \in VarIds |-> e.den * Coef(t, v) + t.den * Coef(e, v)], e.den * t.c + t.den * e.c, t.den * e.den)
Remove(t, v) == Build(t.ks, [w \in VarIds |-> IF w = v THEN 0 ELSE Coef(t, w)], t.c, t.den)
Isolate(t, v) ==      \* only for v in t.ks;  -x / a  =  -sgn(a) x / |a|
  LET a == Coef(t, v)  s == Sgn(a) IN
  Build(t.ks, [w \in VarIds |-> IF w = v THEN 0 ELSE -s * Coef(t, w)], IF IsolateKeepsSign THEN s * t.c ELSE -s * t.c, Abs(a) * t.den)
Substitute(t, v, e) == IF v \notin Rng(t.ks) THEN t ELSE Add(Remove(t, v), Mul(e, Coef(t, v)))     \* (coefficient(v) is an integer here: t.den = 1)

Vals == [VarIds -> Grid]
RECURSIVE Lhs(_, _, _)
Lhs(t, x, i) == IF i > Len(t.ks) THEN 0 ELSE t.cf[i] * x[t.ks[i]] + Lhs(t, x, i + 1)      \* numerator of the left-hand side (over t.den)
Holds(t, x) == Lhs(t, x, 1) <= t.c
NoZero(t) == \A i \in DOMAIN t.cf : t.cf[i] # 0

VARIABLES t, e, v, f
TermsT == {Mk(co, c) : co \in [VarIds -> CoT], c \in ConstT}
TermsE == {Mk(co, c) : co \in [VarIds -> CoE], c \in ConstE}
Init == t \in TermsT /\ e \in TermsE /\ v \in VarIds /\ f \in Factors
Next == UNCHANGED <<t, e, v, f>>
Spec == Init /\ [][Next]_<<t, e, v, f>>

Laws ==
  /\ \A x \in Vals :
       /\ Lhs(Mul(t, f), x, 1) = f * Lhs(t, x, 1) /\ Mul(t, f).c = f * t.c
       /\ Lhs(Add(t, e), x, 1) = Lhs(t, x, 1) + Lhs(e, x, 1) /\ Add(t, e).c = t.c + e.c
       /\ Lhs(Remove(t, v), x, 1) = Lhs(t, x, 1) - Coef(t, v) * x[v]
       \* where t holds with equality, the isolated expression  (SUM iso_u u - iso.c) / den  is the value of v
       /\ (v \in Rng(t.ks) /\ Lhs(t, x, 1) = t.c) => (Lhs(Isolate(t, v), x, 1) - Isolate(t, v).c = Isolate(t, v).den * x[v])
       \* e read as  v = SUM e_u u - e.c  (e.den = 1): the substituted term at x is t at x with that value for v
       /\ LET val == Lhs(e, x, 1) - e.c  s == Substitute(t, v, e) IN
            (v \notin Rng(e.ks)) => (Holds(s, x) <=> (Lhs(t, x, 1) - Coef(t, v) * x[v] + Coef(t, v) * val <= t.c))
  /\ NoZero(Mul(t, f)) /\ NoZero(Add(t, e)) /\ NoZero(Remove(t, v)) /\ NoZero(Substitute(t, v, e))
  /\ v \notin Rng(Remove(t, v).ks)
  /\ (v \notin Rng(e.ks)) => v \notin Rng(Substitute(t, v, e).ks)
  /\ v \in Rng(t.ks) => (v \notin Rng(Isolate(t, v).ks) /\ NoZero(Isolate(t, v)) /\ Isolate(t, v).den > 0)

Out(r) == [ks |-> r.ks, cf |-> r.cf, c |-> r.c, den |-> r.den]
Emit == PrintT(<<"CASE", ToJson([t |-> Out(t), e |-> Out(e), v |-> v, f |-> f,
          mul |-> Out(Mul(t, f)), add |-> Out(Add(t, e)), remove |-> Out(Remove(t, v)),
          isolate |-> IF v \in Rng(t.ks) THEN [exc |-> "none", r |-> Out(Isolate(t, v))] ELSE [exc |-> "ValueError", r |-> Out(t)],
          subst |-> Out(Substitute(t, v, e)),
          sign |-> IF v \in Rng(t.ks) THEN (IF Coef(t, v) >= 0 THEN 1 ELSE -1) ELSE 0])>>)
=====================================================================
