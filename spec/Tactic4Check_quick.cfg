SPECIFICATION Spec
CONSTANTS
  V = {"x", "y", "z"}
  Elim = {"x", "y"}
  Co <- CoSmall
  Cs <- CsQuick
  MaxCtx = 2
  M = 4
  Pts <- PtsDef
  IsolateSignBug = FALSE
  RecursionSignBug = FALSE
INVARIANT Sound
INVARIANT NoLeftover
CHECK_DEADLOCK FALSE
