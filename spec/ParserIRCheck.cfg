SPECIFICATION Spec
CONSTANTS
  CombineNoneNone = 8
  MaxParts = 2
  GridN = 3
INVARIANT SideMeaning
INVARIANT LinkMeaning
INVARIANT ConvexityErrorJustified
CHECK_DEADLOCK FALSE
