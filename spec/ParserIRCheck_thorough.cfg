SPECIFICATION Spec
CONSTANTS
  CombineNoneNone = 8
  MaxParts = 3
  GridN = 4
INVARIANT SideMeaning
INVARIANT LinkMeaning
INVARIANT ConvexityErrorJustified
CHECK_DEADLOCK FALSE
