SPECIFICATION Spec
CONSTANTS
  MaxLen = 1000
  NSeed = 3
  EmitLen = 14
  OpFilter <- SolverOps
  NParam = 2
CONSTRAINT Emit
CHECK_DEADLOCK FALSE
