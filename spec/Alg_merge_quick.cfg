SPECIFICATION Spec
CONSTANTS
  Vars = {x, y}
  MaxG = 2
  Strong = FALSE
  Ops = {"merge"}
SYMMETRY Sym
INVARIANT ExactM
INVARIANT WF
INVARIANT ExcOK
CHECK_DEADLOCK FALSE
