SPECIFICATION Spec
CONSTANTS
  VarIds = {1, 2, 3}
  Fresh = 4
  Coefs <- CoefSet
  Consts = {3}
  MaxKeys = 2
  MaxTerms = 1
  Grid <- GridSet
  Mode = "terms"
  AddWithoutMerge = TRUE
INVARIANT Laws
CHECK_DEADLOCK FALSE
