------------------------------ MODULE Itf ------------------------------
(***************************************************************************)
(* C06, design level: for EVERY assignment of roles (input / output /      *)
(* absent) of N variables in two contracts and every option set, the       *)
(* interface computed by the list algebra of iocontract.py (transcribed    *)
(* here on sequences, utils/lists.py) equals the interface the property    *)
(* prescribes in words, is duplicate free, and is well formed exactly when *)
(* the request is meaningful.                                              *)
(***************************************************************************)
EXTENDS Integers, Sequences, FiniteSets, TLC, Json
CONSTANTS Vars
VARIABLES r1, r2, optSet
vars == <<r1, r2, optSet>>
Roles == {"I", "O", "N"}

\* utils/lists.py on sequences
Mem(x, s) == \E i \in DOMAIN s : s[i] = x
ListInter(a, b) == SelectSeq(a, LAMBDA x : Mem(x, b))
ListDiff(a, b) == SelectSeq(a, LAMBDA x : ~Mem(x, b))
ListUnion(a, b) == a \o SelectSeq(b, LAMBDA x : ~Mem(x, a))
SetOf(s) == {s[i] : i \in DOMAIN s}
NoDup(s) == \A i, j \in DOMAIN s : s[i] = s[j] => i = j

\* a fixed enumeration order of the variables gives the lists
Order == CHOOSE f \in [1..Cardinality(Vars) -> Vars] : \A i, j \in 1..Cardinality(Vars) : f[i] = f[j] => i = j
ListOf(S) == SelectSeq(Order, LAMBDA v : v \in S)
In(r) == ListOf({v \in Vars : r[v] = "I"})
Out(r) == ListOf({v \in Vars : r[v] = "O"})

Init == r1 \in [Vars -> Roles] /\ r2 \in [Vars -> Roles] /\ optSet \in SUBSET Vars
Next == UNCHANGED vars
Spec == Init /\ [][Next]_vars

i1 == In(r1)  o1 == Out(r1)  i2 == In(r2)  o2 == Out(r2)  opt == ListOf(optSet)

(* ---- compose_tactics, as coded ---- *)
C_intvars0 == ListUnion(ListInter(o1, i2), ListInter(i1, o2))
C_in == ListDiff(ListUnion(i1, i2), C_intvars0)
C_out == ListUnion(ListDiff(ListUnion(o1, o2), C_intvars0), opt)
C_intvars == ListDiff(C_intvars0, opt)
C_keepOK == ListDiff(opt, ListUnion(o1, o2)) = <<>>
C_can == Len(ListInter(o1, o2)) = 0
\* as worded in the property
W_in == (SetOf(i1) \ SetOf(o2)) \cup (SetOf(i2) \ SetOf(o1))
W_out == ((SetOf(o1) \ SetOf(i2)) \cup (SetOf(o2) \ SetOf(i1))) \cup optSet
ComposeItfOK ==
  (C_keepOK /\ C_can) =>
     /\ SetOf(C_in) = W_in /\ SetOf(C_out) = W_out
     /\ NoDup(C_in) /\ NoDup(C_out)
     /\ SetOf(C_in) \cap SetOf(C_out) = {}
     /\ SetOf(C_intvars) \cap (SetOf(C_in) \cup SetOf(C_out)) = {}
     /\ SetOf(C_in) \cup SetOf(C_out) \cup SetOf(C_intvars) = SetOf(i1) \cup SetOf(o1) \cup SetOf(i2) \cup SetOf(o2)

(* ---- quotient_tactics, as coded (dividend = 1, divisor = 2) ---- *)
Q_can == Len(ListInter(ListDiff(o1, o2), i2)) = 0
Q_addlOK == ListDiff(opt, ListUnion(o2, i1)) = <<>>
Q_out == ListUnion(ListDiff(o1, o2), ListDiff(i2, i1))
Q_in == ListUnion(ListUnion(ListDiff(i1, i2), ListDiff(o2, o1)), opt)
Q_int == ListDiff(ListUnion(ListInter(o1, o2), ListInter(i1, i2)), opt)
WQ_in == ((SetOf(i1) \ SetOf(i2)) \cup (SetOf(o2) \ SetOf(o1))) \cup optSet
WQ_out == (SetOf(o1) \ SetOf(o2)) \cup (SetOf(i2) \ SetOf(i1))
QuotientItfOK ==
  (Q_can /\ Q_addlOK) =>
     /\ SetOf(Q_in) = WQ_in /\ SetOf(Q_out) = WQ_out
     /\ NoDup(Q_in) /\ NoDup(Q_out)
     /\ SetOf(Q_in) \cap SetOf(Q_out) = {}
     /\ SetOf(Q_int) \cap (SetOf(Q_in) \cup SetOf(Q_out)) = {}

(* ---- merge, as coded ---- *)
M_in == ListUnion(i1, i2)
M_out == ListUnion(o1, o2)
MergeItfOK ==
  /\ SetOf(M_in) = SetOf(i1) \cup SetOf(i2) /\ SetOf(M_out) = SetOf(o1) \cup SetOf(o2)
  /\ NoDup(M_in) /\ NoDup(M_out)

(* ---- list operations agree with set operations and preserve duplicate-freeness ---- *)
ListOpsOK ==
  /\ SetOf(ListUnion(i1, o2)) = SetOf(i1) \cup SetOf(o2) /\ NoDup(ListUnion(i1, o2))
  /\ SetOf(ListInter(i1, i2)) = SetOf(i1) \cap SetOf(i2) /\ NoDup(ListInter(i1, i2))
  /\ SetOf(ListDiff(o1, i2)) = SetOf(o1) \ SetOf(i2) /\ NoDup(ListDiff(o1, i2))

(* ---- generator mode: every state with the interface the code must compute (ORDERED lists, as coded) or the refusal it owes;  ---- *)
(* ---- lib/itfdrv.py replays all of them into the real compose / quotient / merge / predicates on contracts without constraints ---- *)
M_clash == SetOf(M_in) \cap SetOf(M_out) # {}
Emit == PrintT(<<"CASE", ToJson([i1 |-> i1, o1 |-> o1, i2 |-> i2, o2 |-> o2, opt |-> opt,
   compose |-> [ok |-> C_keepOK /\ C_can, inv |-> C_in, outv |-> C_out],
   quotient |-> [ok |-> Q_can /\ Q_addlOK, inv |-> Q_in, outv |-> Q_out],
   merge |-> [ok |-> ~M_clash, inv |-> M_in, outv |-> M_out],
   can_compose |-> C_can, can_quotient |-> Q_can,
   shares_io |-> (SetOf(i1) = SetOf(i2) /\ SetOf(o1) = SetOf(o2))])>>)
=====================================================================
