------------------------------ MODULE Nested ------------------------------
(***************************************************************************)
(* NestedTermList (iocontract/compundiocontract.py), the disjunction of    *)
(* constraint lists underneath compound contracts, AS CODED, on            *)
(* alternatives that are closed intervals [lo, hi] of one variable with    *)
(* integer end points (lo > hi: an alternative nothing satisfies):         *)
(*   constructor(force)  ValueError exactly when `force` and two           *)
(*                       alternatives share a point                        *)
(*   a <= b              every alternative of a lies inside ONE            *)
(*                       alternative of b (an empty one lies inside any)   *)
(*   a == b              a <= b and b <= a                                 *)
(*   intersect(a, b)     the non-empty pairwise intersections, a-major     *)
(*   contains_behavior   some alternative contains the point               *)
(*   IoContractCompound.merge   assumptions and guarantees intersected     *)
(*                       (the assumptions must come out disjoint)          *)
(*                                                                         *)
(* Laws (TLC, all pairs of lists of <= 2 alternatives): `<=` answering     *)
(* True is inclusion of the unions (SOUND); intersect is EXACTLY the       *)
(* intersection of the unions, keeps no empty alternative and keeps        *)
(* disjoint lists disjoint; membership is membership in the union.         *)
(* Named deviation, kept as a configuration that TLC must refute           *)
(* (LeComplete): `<=` is NOT complete for unions -- [0,2] is inside        *)
(* [0,1] or [1,2] and the code answers False.  C17 claims soundness only.  *)
(* Generator mode: every pair with all results, replayed into the real     *)
(* NestedPolyhedra by lib/nesteddrv.py.                                    *)
(***************************************************************************)
EXTENDS Integers, Sequences, FiniteSets, TLC, Json
CONSTANTS Lo, Hi, MaxAlts
Iv(l, h) == [lo |-> l, hi |-> h]
\* all proper intervals, and the improper ones with hi = lo - 1 as representatives of "nothing satisfies it"
Intervals == {iv \in {Iv(l, h) : l \in Lo..Hi, h \in (Lo - 1)..Hi} : iv.lo <= iv.hi + 1 /\ (iv.lo > iv.hi => iv.lo = Lo + 1)}
Lists == UNION {[1..n -> Intervals] : n \in 0..MaxAlts}
Empty(iv) == iv.lo > iv.hi
Max(a, b) == IF a > b THEN a ELSE b
Min(a, b) == IF a < b THEN a ELSE b
Meet(p, q) == Iv(Max(p.lo, q.lo), Min(p.hi, q.hi))
Inside(p, q) == Empty(p) \/ (~Empty(q) /\ q.lo <= p.lo /\ p.hi <= q.hi)             \* TermList refinement on intervals

ConstructRaises(A, force) == force /\ \E i, j \in DOMAIN A : i < j /\ ~Empty(Meet(A[i], A[j]))
Le(A, B) == \A i \in DOMAIN A : \E j \in DOMAIN B : Inside(A[i], B[j])
Eq(A, B) == Le(A, B) /\ Le(B, A)
RECURSIVE Pairs(_, _, _, _)
Pairs(A, B, i, j) == IF i > Len(A) THEN <<>>
                     ELSE IF j > Len(B) THEN Pairs(A, B, i + 1, 1)
                     ELSE (IF Empty(Meet(A[i], B[j])) THEN <<>> ELSE <<Meet(A[i], B[j])>>) \o Pairs(A, B, i, j + 1)
Intersect(A, B) == Pairs(A, B, 1, 1)

\* meaning: points with half-integer coordinates (2 * x); enough for integer end points
Points2 == (2 * Lo - 1)..(2 * Hi + 1)
In(iv, p2) == 2 * iv.lo <= p2 /\ p2 <= 2 * iv.hi
Members(A) == {p2 \in Points2 : \E i \in DOMAIN A : In(A[i], p2)}
Disjoint(A) == \A i, j \in DOMAIN A : i < j => Empty(Meet(A[i], A[j]))

VARIABLES A, B
Init == A \in Lists /\ B \in Lists
Next == UNCHANGED <<A, B>>
Spec == Init /\ [][Next]_<<A, B>>

Laws ==
  /\ Le(A, B) => Members(A) \subseteq Members(B)                                   \* sound
  /\ Eq(A, B) => Members(A) = Members(B)
  /\ Members(Intersect(A, B)) = Members(A) \cap Members(B)                          \* exact
  /\ \A i \in DOMAIN Intersect(A, B) : ~Empty(Intersect(A, B)[i])
  /\ (Disjoint(A) /\ Disjoint(B)) => Disjoint(Intersect(A, B))
  /\ ConstructRaises(A, TRUE) <=> ~Disjoint(A)
  /\ ~ConstructRaises(A, FALSE)
  /\ Le(A, A) /\ (A # <<>> => Le(<<>>, A))
LeComplete == (Members(A) \subseteq Members(B)) => Le(A, B)                         \* NOT a law: TLC must refute it

Emit == PrintT(<<"CASE", ToJson([a |-> A, b |-> B, le |-> Le(A, B), eq |-> Eq(A, B), meet |-> Intersect(A, B),
                                  raises |-> ConstructRaises(A, TRUE), members |-> [p2 \in Points2 |-> p2 \in Members(A)],
                                  \* IoContractCompound.merge of (assumptions A over the input, guarantees B over the output) with (B, A): both sides intersected
                                  meetBA |-> Intersect(B, A), disjA |-> Disjoint(A), disjB |-> Disjoint(B)])>>)
=====================================================================
