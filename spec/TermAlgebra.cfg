SPECIFICATION Spec
CONSTANTS
  VarIds = {1, 2, 3}
  CoT <- SetA
  CoE <- SetB
  ConstT <- SetC
  ConstE = {0, 2}
  Factors <- SetF
  Grid <- SetB
  IsolateKeepsSign = FALSE
INVARIANT Laws
CHECK_DEADLOCK FALSE
