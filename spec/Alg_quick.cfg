SPECIFICATION Spec
CONSTANTS
  Vars = {x, y}
  MaxG = 1
  Strong = FALSE
  Ops = {"compose", "quotient", "merge"}
SYMMETRY Sym
INVARIANT Sound
INVARIANT SoundQ
INVARIANT ExactM
INVARIANT WF
INVARIANT ExcOK
CHECK_DEADLOCK FALSE
