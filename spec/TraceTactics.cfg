SPECIFICATION TSpec
CONSTANTS
  N = 5
  TacticIds = {1, 2, 3, 4, 5, 6}
  MaxOrder = 6
  SiblingsOriginal = FALSE
CONSTRAINT Report
CHECK_DEADLOCK FALSE
