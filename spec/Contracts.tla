-------------------------- MODULE Contracts --------------------------
(***************************************************************************)
(* Assume-guarantee contracts over polyhedral rows: well-formedness, the   *)
(* interface algebra prescribed for every operation (C06), admissibility   *)
(* of requests, and the semantic obligations of compose (C01, C15),        *)
(* quotient (C02), merge (C08, C15) and rename (C16).                      *)
(*                                                                         *)
(* A contract is [inv, outv : Seq(STRING), a, g : Seq(row)].               *)
(* Every obligation is stated twice: at a point (..At, the definition)     *)
(* and as a list of guarded implications ("clauses") that Poly!Decide...   *)
(* decides for all real points of the box from untrusted hints.            *)
(***************************************************************************)
EXTENDS Poly, SequencesExt

Set(s) == Rng(s)
NoDup(s) == \A i, j \in DOMAIN s : s[i] = s[j] => i = j
ItfVars(c) == Set(c.inv) \cup Set(c.outv)

WellFormed(c) ==
  /\ NoDup(c.inv) /\ NoDup(c.outv)
  /\ Set(c.inv) \cap Set(c.outv) = {}
  /\ RowsVars(c.a) \subseteq Set(c.inv)
  /\ RowsVars(c.g) \subseteq ItfVars(c)

(* ---------------- prescribed interfaces (as sets; list order is free) ---- *)
ComposeIn(c1, c2) == (Set(c1.inv) \ Set(c2.outv)) \cup (Set(c2.inv) \ Set(c1.outv))
ComposeOut(c1, c2, keep) == ((Set(c1.outv) \ Set(c2.inv)) \cup (Set(c2.outv) \ Set(c1.inv))) \cup keep
Connected(c1, c2) == (Set(c1.outv) \cap Set(c2.inv)) \cup (Set(c1.inv) \cap Set(c2.outv))
ComposeInternal(c1, c2, keep) == Connected(c1, c2) \ keep

QuotientIn(c, c1, addl) == ((Set(c.inv) \ Set(c1.inv)) \cup (Set(c1.outv) \ Set(c.outv))) \cup addl
QuotientOut(c, c1) == (Set(c.outv) \ Set(c1.outv)) \cup (Set(c1.inv) \ Set(c.inv))

MergeIn(c1, c2) == Set(c1.inv) \cup Set(c2.inv)
MergeOut(c1, c2) == Set(c1.outv) \cup Set(c2.outv)

RenameSet(S, s, t) == IF s \in S THEN (S \ {s}) \cup {t} ELSE S

(* ---------------- admissibility ---------------------------------------- *)
KeepOK(c1, c2, keep) == keep \subseteq Set(c1.outv) \cup Set(c2.outv)
CanCompose(c1, c2) == Set(c1.outv) \cap Set(c2.outv) = {}
Cycle(c1, c2) == Set(c1.inv) \cap Set(c2.outv) # {} /\ Set(c2.inv) \cap Set(c1.outv) # {}
FeedbackForbidden(c1, c2) ==
  Cycle(c1, c2) /\ (Set(c2.outv) \cap RowsVars(c1.a) # {} \/ Set(c1.outv) \cap RowsVars(c2.a) # {})
ComposeMeaningful(c1, c2, keep) == KeepOK(c1, c2, keep) /\ CanCompose(c1, c2) /\ ~FeedbackForbidden(c1, c2)

CanQuotient(c, c1) == (Set(c.outv) \ Set(c1.outv)) \cap Set(c1.inv) = {}
AddlOK(c, c1, addl) == addl \subseteq Set(c1.outv) \cup Set(c.inv)
QuotientMeaningful(c, c1, addl) == CanQuotient(c, c1) /\ AddlOK(c, c1, addl)

MergeMeaningful(c1, c2) ==
  /\ MergeIn(c1, c2) \cap MergeOut(c1, c2) = {}

SharesIo(c1, c2) == Set(c1.inv) = Set(c2.inv) /\ Set(c1.outv) = Set(c2.outv)

\* rename s -> t : clash iff the new name lands on the other side of the interface
RenameClash(c, s, t) ==
  /\ s # t
  /\ \/ (s \in Set(c.inv) /\ t \in Set(c.outv))
     \/ (s \in Set(c.outv) /\ t \in Set(c.inv))

(* ---------------- obligations at a point -------------------------------- *)
Honours(c, q, d) == CompSatAt([a |-> c.a, g |-> c.g], q, d)
ComposeSoundAt(c1, c2, r, q, d) ==
  (AllHoldAt(r.a, q, d) /\ Honours(c1, q, d) /\ Honours(c2, q, d))
     => \A t \in Set(c1.a) \cup Set(c2.a) \cup Set(r.g) : ~BrokenAt(t, q, d)
QuotientSoundAt(c, c1, qc, q, d) ==
  (AllHoldAt(c.a, q, d) /\ Honours(c1, q, d) /\ Honours(qc, q, d))
     => \A t \in Set(c1.a) \cup Set(qc.a) \cup Set(c.g) : ~BrokenAt(t, q, d)
KeepsAt(ops, r, q, d) ==
  (AllHoldAt(r.a, q, d) /\ AllHoldAt(r.g, q, d))
     => \A t \in ops : RowVars(t) \subseteq ItfVars(r) => ~BrokenAt(t, q, d)

(* ---------------- obligations as clause lists ---------------------------- *)
Comp(c) == [a |-> c.a, g |-> c.g]
Clause(base, comps, t) == [base |-> base, comps |-> comps, t |-> t]
ClausesFor(base, comps, targets) == [i \in DOMAIN targets |-> Clause(base, comps, targets[i])]

ComposeSoundClauses(c1, c2, r) == ClausesFor(r.a, <<Comp(c1), Comp(c2)>>, c1.a \o c2.a \o r.g)
QuotientSoundClauses(c, c1, qc) == ClausesFor(c.a, <<Comp(c1), Comp(qc)>>, c1.a \o qc.a \o c.g)
SelectRows(rs, P(_)) == SelectSeq(rs, P)
KeepsClauses(c1, c2, r) ==
  ClausesFor(r.a \o r.g, <<>>, SelectSeq(c1.g \o c2.g, LAMBDA t : RowVars(t) \subseteq ItfVars(r)))
\* exact conjunction: r.a <=> A1/\A2 and (r.a/\r.g) <=> (A1/\A2/\G1/\G2)
ExactClauses(c1, c2, r) ==
     ClausesFor(r.a, <<>>, c1.a \o c2.a)
  \o ClausesFor(c1.a \o c2.a, <<>>, r.a)
  \o ClausesFor(r.a \o r.g, <<>>, c1.g \o c2.g)
  \o ClausesFor(c1.a \o c2.a \o c1.g \o c2.g, <<>>, r.g)

(* ---------------- renaming on rows -------------------------------------- *)
RenameRow(r, s, t) ==
  IF s = t \/ s \notin DOMAIN r.co THEN r
  ELSE LET dom == (DOMAIN r.co \ {s}) \cup {t} IN
       Row([v \in dom |-> IF v = t THEN Coef(r, t) + r.co[s] ELSE r.co[v]], r.c, r.k)
RenameRows(rs, s, t) == [i \in DOMAIN rs |-> RenameRow(rs[i], s, t)]
\* the renamed contract, as the algebra prescribes it (semantic content; list order free)
Renamed(c, s, t) ==
  IF s = t \/ s \notin ItfVars(c) THEN c
  ELSE [inv |-> SetToSeq(RenameSet(Set(c.inv), s, t)), outv |-> SetToSeq(RenameSet(Set(c.outv), s, t)),
        a |-> RenameRows(c.a, s, t), g |-> RenameRows(c.g, s, t)]
\* a list of mappings applied in order (rename_variables)
RECURSIVE RenamedAll(_, _, _), ClashAll(_, _, _)
RenamedAll(c, maps, i) == IF i > Len(maps) THEN c ELSE RenamedAll(Renamed(c, maps[i][1], maps[i][2]), maps, i + 1)
ClashAll(c, maps, i) ==
  IF i > Len(maps) THEN FALSE
  ELSE RenameClash(c, maps[i][1], maps[i][2]) \/ ClashAll(Renamed(c, maps[i][1], maps[i][2]), maps, i + 1)
\* semantic equality of two contracts: a <=> a' and (a/\g) <=> (a'/\g')
EquivClauses(x, y) ==
     ClausesFor(x.a, <<>>, y.a) \o ClausesFor(y.a, <<>>, x.a)
  \o ClausesFor(x.a \o x.g, <<>>, y.g) \o ClausesFor(y.a \o y.g, <<>>, x.g)

(* ---------------- deciding a clause list from hints ---------------------- *)
\* hints: sequence aligned with the clause list; guarded clauses carry [wit, cases]
DecideClause(cl, nameSeq, h, g) ==
  IF Len(cl.comps) = 0 THEN Decide(cl.base, nameSeq, cl.t, h, g)
  ELSE DecideGuarded(cl.base, cl.comps, nameSeq, cl.t, h, g)
\* <<"ok"|"violation"|"unjudged"|"malformed", detail>>
DecideAll(cls, nameSeq, hs, g, tag) ==
  IF Len(hs) # Len(cls) THEN <<"malformed", tag \o ":hints">>
  ELSE LET dec == [i \in DOMAIN cls |-> DecideClause(cls[i], nameSeq, hs[i], g)] IN
       IF \E i \in DOMAIN cls : dec[i] = "broken"
       THEN <<"violation", tag \o ":" \o ToString(CHOOSE i \in DOMAIN cls : dec[i] = "broken")>>
       ELSE IF \A i \in DOMAIN cls : dec[i] = "holds" THEN <<"ok", tag>>
       ELSE <<"unjudged", tag \o ":" \o ToString(CHOOSE i \in DOMAIN cls : dec[i] # "holds")>>
=====================================================================
