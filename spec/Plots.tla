------------------------------ MODULE Plots ------------------------------
(***************************************************************************)
(* C18: the corner points of a two-dimensional slice of a constraint list. *)
(* Given integer rows, two plot variables, integer values for the other    *)
(* variables and integer axis limits, the specification computes the slice *)
(* itself (substitution, limit rows) and its exact corner set: the         *)
(* intersection points of pairs of boundary lines (Cramer's rule, in       *)
(* integers, a point is <<X, Y, D>> = (X/D, Y/D)) that satisfy every row.  *)
(* The recorded vertex list must be that set (repetitions allowed), listed *)
(* in angular order; ValueError exactly for an empty slice or a missing    *)
(* value.                                                                  *)
(***************************************************************************)
EXTENDS Integers, Sequences, FiniteSets, FiniteSetsExt, TLC
Abs(i) == IF i < 0 THEN -i ELSE i
Sgn(i) == IF i < 0 THEN -1 ELSE IF i > 0 THEN 1 ELSE 0
PSum(S, f(_)) == FoldSet(LAMBDA i, acc : acc + f(i), 0, S)
Rng(s) == {s[i] : i \in DOMAIN s}
Coef(r, v) == IF v \in DOMAIN r.co THEN r.co[v] ELSE 0
RowVars(r) == {v \in DOMAIN r.co : r.co[v] # 0}

\* e: [rows, xv, yv, values, xl, yl, ans, pts]
Missing(e) == (UNION {RowVars(e.rows[i]) : i \in DOMAIN e.rows}) \ ({e.xv, e.yv} \cup DOMAIN e.values)
\* a 2-d row [a, b, c] : a*x + b*y <= c
Slice2(e, r) == [a |-> Coef(r, e.xv), b |-> Coef(r, e.yv),
                 c |-> r.c - PSum(RowVars(r) \ {e.xv, e.yv}, LAMBDA v : r.co[v] * e.values[v])]
LimitRows(e) == << [a |-> 1, b |-> 0, c |-> e.xl[2]], [a |-> -1, b |-> 0, c |-> -e.xl[1]],
                   [a |-> 0, b |-> 1, c |-> e.yl[2]], [a |-> 0, b |-> -1, c |-> -e.yl[1]] >>
SliceRows(e) == [i \in DOMAIN e.rows |-> Slice2(e, e.rows[i])] \o LimitRows(e)
\* rows without variables after substitution: 0 <= c
Trivial(r) == r.a = 0 /\ r.b = 0
SliceViolated(S) == \E i \in DOMAIN S : Trivial(S[i]) /\ S[i].c < 0

\* intersection of the boundary lines of rows r and s
Cross(r, s) == [X |-> r.c * s.b - s.c * r.b, Y |-> r.a * s.c - s.a * r.c, D |-> r.a * s.b - s.a * r.b]
FeasibleAt(S, p) == \A i \in DOMAIN S : (S[i].a * p.X + S[i].b * p.Y) * Sgn(p.D) <= S[i].c * Abs(p.D)
Corners(S) ==
  IF SliceViolated(S) THEN {}
  ELSE {p \in {Cross(S[i], S[j]) : i \in DOMAIN S, j \in DOMAIN S} : p.D # 0 /\ FeasibleAt(S, p)}
SamePoint(p, c) == p[1] * c.D = c.X * p[3] /\ p[2] * c.D = c.Y * p[3]       \* p = <<nx, ny, d>>, d > 0
SameRec(p, q) == p[1] * q[3] = q[1] * p[3] /\ p[2] * q[3] = q[2] * p[3]

\* cyclic sequence without immediate repetitions
RECURSIVE Dedup(_)
Dedup(s) == IF Len(s) <= 1 THEN s
            ELSE IF SameRec(s[1], s[2]) THEN Dedup(Tail(s)) ELSE <<s[1]>> \o Dedup(Tail(s))
Cyc(s) == LET t == Dedup(s) IN IF Len(t) >= 2 /\ SameRec(t[1], t[Len(t)]) THEN SubSeq(t, 1, Len(t) - 1) ELSE t
\* sign of the turn p -> q -> r (all denominators positive)
Turn(p, q, r) ==
  LET ax == q[1] * p[3] - p[1] * q[3]  ay == q[2] * p[3] - p[2] * q[3]
      bx == r[1] * q[3] - q[1] * r[3]  by == r[2] * q[3] - q[2] * r[3] IN
  Sgn(ax * by * 1 - ay * bx * 1)        \* common positive factors p3*q3 and q3*r3 do not change the sign pattern jointly
AngularOrderOK(pts) ==
  LET t == Cyc(pts)  n == Len(t) IN
  n <= 2 \/ (\A i \in 1..n : Turn(t[i], t[(i % n) + 1], t[((i + 1) % n) + 1]) > 0)
            \/ (\A i \in 1..n : Turn(t[i], t[(i % n) + 1], t[((i + 1) % n) + 1]) < 0)

VerticesJudge(e) ==
  IF Missing(e) # {} THEN (IF e.ans = "ValueError" THEN <<"ok", "missing-value">> ELSE <<"violation", "missing-value-accepted:" \o e.ans>>)
  ELSE LET S == SliceRows(e)  C == Corners(S) IN
       IF C = {} THEN (IF e.ans = "ValueError" THEN <<"ok", "empty-slice">> ELSE <<"violation", "empty-slice-answered:" \o e.ans>>)
       ELSE IF e.ans # "ok" THEN <<"violation", "nonempty-slice-raised:" \o e.ans>>
       ELSE IF \E i \in DOMAIN e.pts : e.pts[i][3] <= 0 THEN <<"unjudged", "snap">>
       ELSE IF \E i \in DOMAIN e.pts : ~\E c \in C : SamePoint(e.pts[i], c) THEN <<"violation", "not-a-corner">>
       ELSE IF \E c \in C : ~\E i \in DOMAIN e.pts : SamePoint(e.pts[i], c) THEN <<"violation", "corner-missing">>
       ELSE IF ~AngularOrderOK(e.pts) THEN <<"violation", "not-in-angular-order">>
       ELSE <<"ok", "corners">>
=====================================================================
