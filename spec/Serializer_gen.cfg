SPECIFICATION GenSpec
CONSTANTS
  Ids = {1, 2}
  Consts <- ConstsDef
  MaxLen = 4
CONSTRAINT EmitCase
CHECK_DEADLOCK FALSE
