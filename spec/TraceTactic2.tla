--------------------------- MODULE TraceTactic2 ---------------------------
(* Conformance of the real PolyhedralTermList._tactic_2 with Tactic2.tla: every recorded call is re-run by T2 with the
   RECORDED answer of its one LP (status and optimum as an exact rational); outcome and returned term must agree exactly.
   What this binds is everything around the solver: which context rows reach it, the sign of the objective, how the
   optimum enters the new bound, the cases in which the tactic declines, the unchanged term when only a constant is left. *)
EXTENDS Tactic2, Json, IOUtils
Traces == ndJsonDeserialize(IOEnv.TRACE_FILE)
VARIABLES tid, l, last
tvars == <<tid, l, last>>
\* the objective the code handed to linprog, as recorded (per variable of the LP rows, integers over e.objden)
ObjectiveAgrees(e) ==
  LET elim == {e.elim[i] : i \in DOMAIN e.elim}
      rws == LPRows(e.term, e.ctx, elim)
      covered == UNION {TermVars(rws[j]) : j \in DOMAIN rws} IN
  e.lp.st = 9 \/ \A u \in covered : e.obj[u] * e.term.den = Objective(e.term, e.refine)[u] * e.objden
Judge(e) ==
  LET elim == {e.elim[i] : i \in DOMAIN e.elim}
      lp == IF e.lp.st = 9 THEN [st |-> 0, num |-> 0, den |-> 1] ELSE e.lp        \* 9: the solver was never reached
      want == T2(e.term, e.ctx, elim, e.refine, lp) IN
  IF e.lp.st = 9 /\ want.kind # "error" THEN <<"drift", "solver-not-called">>
  ELSE IF e.lp.st # 9 /\ e.nrows # Len(LPRows(e.term, e.ctx, elim)) THEN <<"drift", "rows-given-to-the-solver">>
  ELSE IF ~ObjectiveAgrees(e) THEN <<"drift", "objective">>
  ELSE IF want.kind # e.kind THEN <<"drift", "outcome:" \o want.kind \o "-vs-" \o e.kind>>
  ELSE IF want.kind = "row" /\ ~SameTerm(want.row, e.row) THEN <<"drift", "different-term">>
  ELSE <<"ok", want.kind>>
TInit == tid \in 1..Len(Traces) /\ l = 0 /\ last = <<>>
TStep == /\ l < Len(Traces[tid].ev) /\ l' = l + 1
         /\ last' = <<(<<"t2">> \o Judge(Traces[tid].ev[l + 1]))>>
         /\ UNCHANGED tid
TSpec == TInit /\ [][TStep]_tvars
Report == l > 0 => \A i \in DOMAIN last : PrintT(<<"VERDICT", Traces[tid].id, l, last[i][1], last[i][2], last[i][3]>>)
=====================================================================
