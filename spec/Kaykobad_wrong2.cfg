SPECIFICATION Spec
CONSTANTS
  VarIds = {1, 2, 3, 4}
  CoT <- SetT3
  CoR <- SetR3
  ConstT = {3}
  ConstR = {2}
  MaxCtx = 3
  KeptOnly <- Var4
  ElimLists <- Lists3
  SignAny = FALSE
  NoAccumulation = TRUE
INVARIANT Sound
CHECK_DEADLOCK FALSE
