------------------------------- MODULE Eq -------------------------------
(***************************************************************************)
(* C19: coherence of equality, hashing and copying.                        *)
(* An object is described by its fields (descriptor): a term by its        *)
(* coefficient map and constant (numbers as canonical strings, -0 = 0), a  *)
(* list by its bag of terms, a contract by its input set, output set and   *)
(* the bags of its assumptions and guarantees.  The recorded matrix of ==  *)
(* answers and the recorded hashes must satisfy:                           *)
(*   sound     x == y  only if all fields are equal                        *)
(*   copies    a copy == its original, with the same hash                  *)
(*   symmetric, transitive                                                 *)
(*   hashing   x == y  implies hash(x) = hash(y)                           *)
(***************************************************************************)
EXTENDS Integers, Sequences, FiniteSets, TLC
Rng(s) == {s[i] : i \in DOMAIN s}
Count(s, x) == Cardinality({i \in DOMAIN s : s[i] = x})
BagEq(s, t) == Len(s) = Len(t) /\ \A x \in Rng(s) \cup Rng(t) : Count(s, x) = Count(t, x)
\* descriptors: term [co, c]; list [terms]; contract [inv, outv, a, g];
\* compound [inv, outv, a, g] with a, g lists of closed intervals <<lo, hi>> (integer end points in -60..60) of ONE variable:
\* nested lists are compared by meaning, so two of them are "equal" when their unions contain the same points --
\* decided exactly on the half-integer grid
InIvs(ivs, p2) == \E k \in DOMAIN ivs : 2 * ivs[k][1] <= p2 /\ p2 <= 2 * ivs[k][2]
UnionEq(s, t) == \A p2 \in -130..130 : InIvs(s, p2) <=> InIvs(t, p2)
FieldsEqual(kind, x, y) ==
  CASE kind = "term" -> x.co = y.co /\ x.c = y.c
    [] kind = "list" -> BagEq(x.terms, y.terms)
    [] kind = "contract" -> Rng(x.inv) = Rng(y.inv) /\ Rng(x.outv) = Rng(y.outv) /\ BagEq(x.a, y.a) /\ BagEq(x.g, y.g)
    [] kind = "compound" -> Rng(x.inv) = Rng(y.inv) /\ Rng(x.outv) = Rng(y.outv) /\ UnionEq(x.a, y.a)
                            /\ x.gv = y.gv /\ UnionEq(x.g, y.g)          \* gv: the variable the guarantee intervals speak about
\* e: [kind, objs, eq (matrix of "true"/"false"/exception class), hash, copies (pairs)]
N(e) == Len(e.objs)
EqJudge(e) ==
  LET n == N(e)  T(i, j) == e.eq[i][j] = "true" IN
  IF \E i, j \in 1..n : e.eq[i][j] \notin {"true", "false"} THEN <<"violation", "exception">>
  ELSE IF \E i, j \in 1..n : T(i, j) /\ ~FieldsEqual(e.kind, e.objs[i], e.objs[j])
       THEN <<"violation", "equal-but-fields-differ">>
  ELSE IF \E p \in Rng(e.copies) : ~T(p[1], p[2]) THEN <<"violation", "copy-not-equal">>
  ELSE IF \E p \in Rng(e.copies) : e.hash[p[1]] # e.hash[p[2]] THEN <<"violation", "copy-hash-differs">>
  ELSE IF \E i \in 1..n : ~T(i, i) THEN <<"violation", "not-reflexive">>
  ELSE IF \E i, j \in 1..n : T(i, j) # T(j, i) THEN <<"violation", "not-symmetric">>
  ELSE IF \E i, j, k \in 1..n : T(i, j) /\ T(j, k) /\ ~T(i, k) THEN <<"violation", "not-transitive">>
  ELSE IF \E i, j \in 1..n : T(i, j) /\ e.hash[i] # e.hash[j] THEN <<"violation", "equal-with-different-hash">>
  ELSE <<"ok", "coherent">>
=====================================================================
