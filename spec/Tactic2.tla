----------------------------- MODULE Tactic2 -----------------------------
(***************************************************************************)
(* C04, design level: tactic 2 of polyhedra.py (PolyhedralTermList.        *)
(* _tactic_2), transcribed statement by statement around ONE call of the   *)
(* LP solver, whose answer is a parameter.                                 *)
(*                                                                         *)
(* Tactic 2 replaces the part of a term over the variables to eliminate by *)
(* its optimum over the context rows that mention ONLY such variables      *)
(* (the term itself excluded): the maximum when refining, the minimum when *)
(* relaxing.  It declines (ValueError) when there is no such row, when     *)
(* those rows do not mention every eliminated variable of the term, or     *)
(* when the LP is infeasible or unbounded.  When nothing but the constant  *)
(* would be left it returns the term UNCHANGED.                            *)
(*                                                                         *)
(* Terms are triples [co, c, den], den > 0 (see Tactic4.tla).  The LP      *)
(* answer is [st, num, den]: linprog's status and  fun = num/den.          *)
(*                                                                         *)
(* Tactic2Check.tla computes the TRUE answer of the LP for contexts whose  *)
(* rows bound one variable each and has TLC check, for every term and      *)
(* context of a small universe, that the returned term refines / relaxes   *)
(* the original (exactly: the extremal points of such contexts lie on the  *)
(* half-integer grid that is swept).  TraceTactic2.tla re-runs every       *)
(* recorded call of the real tactic with the recorded LP answer.           *)
(***************************************************************************)
EXTENDS Integers, Sequences, FiniteSets, TLC
CONSTANTS V,
          NoNegation,    \* TRUE: the objective is not negated when refining (a wrong variant: bounds from the wrong side)
          KeepSelf       \* TRUE: the term itself is not excluded from the context rows (a wrong variant: a term may bound itself)

T(co, c, den) == [co |-> co, c |-> c, den |-> den]
TermVars(t) == {u \in V : t.co[u] # 0}
SameTerm(a, b) == a.c * b.den = b.c * a.den /\ \A u \in V : a.co[u] * b.den = b.co[u] * a.den
Res(kind, row) == [kind |-> kind, row |-> row]
Zero == T([u \in V |-> 0], 0, 1)

\* the rows handed to the solver: context rows over eliminated variables only, the term itself left out
LPRows(term, ctx, elim) ==
  SelectSeq(ctx, LAMBDA r : TermVars(r) \subseteq elim /\ (KeepSelf \/ ~SameTerm(r, term)))
\* the objective linprog MINIMISES, per variable (the code builds it over the variables of LPRows)
Polarity(refine) == IF refine /\ ~NoNegation THEN -1 ELSE 1
Objective(term, refine) == [u \in V |-> Polarity(refine) * term.co[u]]

\* lp = [st, num, den]:  status of linprog and  fun = num/den  (den > 0)
T2(term, ctx, elim, refine, lp) ==
  LET conflict == elim \cap TermVars(term)
      rows == LPRows(term, ctx, elim)
      covered == UNION {TermVars(rows[i]) : i \in DOMAIN rows}
  IN IF Len(rows) = 0 THEN Res("error", Zero)
     ELSE IF ~(conflict \subseteq covered) THEN Res("error", Zero)
     ELSE IF lp.st \in {2, 3} THEN Res("error", Zero)
     ELSE LET pol == Polarity(refine)
              \* result = term without the eliminated variables, constant - polarity * fun, over the denominator term.den * lp.den
              r == T([u \in V |-> IF u \in elim THEN 0 ELSE term.co[u] * lp.den], term.c * lp.den - pol * lp.num * term.den, term.den * lp.den)
          IN IF TermVars(r) = {} THEN Res("row", term) ELSE Res("row", r)
=====================================================================
