----------------------------- MODULE Tactics -----------------------------
(***************************************************************************)
(* C04, design level: the elimination dispatcher of polyhedra.py           *)
(* (_transform / _transform_term and the tail of elim_vars_by_relaxing)    *)
(* over ABSTRACT tactics.  A tactic attempt on term i either raises        *)
(* ValueError, returns None, or returns a new term that meets the tactic   *)
(* contract IN THE CONTEXT IT WAS GIVEN (the caller's context plus the     *)
(* other CURRENT terms: earlier ones already transformed, later ones       *)
(* still original):                                                        *)
(*     refine:  helpers /\ new  =>  old        relax:  helpers /\ old => new *)
(* Terms are uninterpreted (tags); the claim of C04 for the whole list is  *)
(* decided by Horn forward chaining, hence for ALL contents.  The model    *)
(* also fixes what the dispatcher reports: which tactics are attempted, in *)
(* which order, and the tactic number recorded per term.                   *)
(***************************************************************************)
EXTENDS Integers, Sequences, FiniteSets, TLC
CONSTANTS N,            \* number of terms in the list (1..N)
          TacticIds,    \* e.g. {1, 2, 3}
          MaxOrder,     \* maximal length of tactics_order
          SiblingsOriginal   \* FALSE: helpers are the current terms (the code); TRUE: the original siblings (a known wrong variant)
Orders == UNION {[1..k -> TacticIds] : k \in 0..MaxOrder}

VARIABLES refine, hasElim, order, i, k, cur, stat, attempts, ax, pc, leftover
vars == <<refine, hasElim, order, i, k, cur, stat, attempts, ax, pc, leftover>>
\* cur[j] : tag of the current j-th term (original tag j, transformed tag 10+j); leftover[j]: the new term still mentions an eliminated variable

Init ==
  /\ refine \in BOOLEAN /\ hasElim \in [1..N -> BOOLEAN] /\ order \in Orders
  /\ i = 1 /\ k = 1 /\ cur = [j \in 1..N |-> j] /\ stat = [j \in 1..N |-> 99] /\ attempts = <<>> /\ ax = {}
  /\ pc = "term" /\ leftover = [j \in 1..N |-> FALSE]

Helpers == IF SiblingsOriginal THEN {j \in 1..N : j # i} ELSE {cur[j] : j \in (1..N) \ {i}}
Rule(body, head) == [body |-> body, head |-> head]

\* pick up the next term
TermStep ==
  /\ pc = "term"
  /\ IF i > N THEN pc' = "done" /\ UNCHANGED <<i, k, stat>>
     ELSE IF ~hasElim[i] THEN i' = i + 1 /\ UNCHANGED <<pc, k, stat>>      \* copied unchanged, no statistics entry
     ELSE pc' = "try" /\ k' = 1 /\ UNCHANGED <<i, stat>>
  /\ UNCHANGED <<refine, hasElim, order, cur, attempts, ax, leftover>>
\* one tactic attempt with outcome o in {"ve", "none", "ok", "okleft"}
Try(o) ==
  /\ pc = "try"
  /\ IF k > Len(order)
     THEN /\ o = "exhausted" /\ stat' = [stat EXCEPT ![i] = -1] /\ i' = i + 1 /\ pc' = "term"
          /\ UNCHANGED <<k, cur, attempts, ax, leftover>>
     ELSE /\ o \in {"ve", "none", "ok", "okleft"}
          /\ attempts' = Append(attempts, [term |-> i, tactic |-> order[k], outcome |-> IF o = "okleft" THEN "ok" ELSE o])
          /\ IF o \in {"ok", "okleft"}
             THEN /\ cur' = [cur EXCEPT ![i] = 10 + i]
                  /\ leftover' = [leftover EXCEPT ![i] = (o = "okleft")]
                  /\ ax' = ax \cup {IF refine THEN Rule(Helpers \cup {0, 10 + i}, i) ELSE Rule(Helpers \cup {0, i}, 10 + i)}
                  /\ stat' = [stat EXCEPT ![i] = order[k]] /\ i' = i + 1 /\ pc' = "term" /\ UNCHANGED k
             ELSE k' = k + 1 /\ UNCHANGED <<cur, leftover, ax, stat, i, pc>>
  /\ UNCHANGED <<refine, hasElim, order>>
Next == TermStep \/ \E o \in {"ve", "none", "ok", "okleft", "exhausted"} : Try(o)
Spec == Init /\ [][Next]_vars

RECURSIVE Close(_, _)
Close(known, rules) ==
  LET new == {r.head : r \in {q \in rules : q.body \subseteq known}} \ known IN
  IF new = {} THEN known ELSE Close(known \cup new, rules)
\* tag 0 stands for the caller's context
Result == {cur[j] : j \in 1..N}
\* relaxing drops, at the end, every term that still mentions an eliminated variable
Survivors == {cur[j] : j \in {m \in 1..N : ~(cur[m] = m /\ hasElim[m]) /\ ~leftover[m]}}
ImplicationPreserving ==
  pc = "done" =>
    IF refine THEN (1..N) \subseteq Close({0} \cup Result, ax)
    ELSE Survivors \subseteq Close({0} \cup (1..N), ax)
\* what the dispatcher reports
StatsOK ==
  pc = "done" => \A j \in 1..N :
     IF ~hasElim[j] THEN stat[j] = 99
     ELSE LET mine == SelectSeq(attempts, LAMBDA a : a.term = j) IN
          /\ \A m \in DOMAIN mine : mine[m].tactic = order[m]                       \* attempted in order, from the first
          /\ \A m \in DOMAIN mine : mine[m].outcome = "ok" => m = Len(mine)       \* nothing is tried after a success
          /\ (stat[j] = -1 <=> (Len(mine) = Len(order) /\ \A m \in DOMAIN mine : mine[m].outcome # "ok"))
          /\ (stat[j] # -1 => Len(mine) >= 1 /\ mine[Len(mine)].outcome = "ok" /\ stat[j] = mine[Len(mine)].tactic)
=====================================================================
