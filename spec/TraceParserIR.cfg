SPECIFICATION Spec
CONSTANTS
  CombineNoneNone = 8
CONSTRAINT Report
CHECK_DEADLOCK FALSE
