SPECIFICATION Spec
CONSTANTS
  N = 3
  TacticIds = {1, 2, 3}
  MaxOrder = 3
  SiblingsOriginal = FALSE
INVARIANT ImplicationPreserving
INVARIANT StatsOK
CHECK_DEADLOCK FALSE
