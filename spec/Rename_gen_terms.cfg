SPECIFICATION Spec
CONSTANTS
  VarIds = {1, 2, 3}
  Fresh = 4
  Coefs <- CoefSet
  Consts = {3}
  MaxKeys = 2
  MaxTerms = 2
  Grid <- GridSet
  Mode = "terms"
  AddWithoutMerge = FALSE
CONSTRAINT Emit
CHECK_DEADLOCK FALSE
