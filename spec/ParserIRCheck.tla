--------------------------- MODULE ParserIRCheck ---------------------------
(* Exhaustive design-level check of ParserIR.tla against Grammar.tla over a universe of small
   relations: every side's IR means the written side, the expanded rows hold exactly where the
   written link does, and the convexity error needs a negatively written absolute term. *)
EXTENDS ParserIR
CONSTANTS MaxParts, GridN
V(n, k) == [t |-> "var", k |-> k, n |-> n]
Num(k) == [t |-> "num", k |-> k]
AbsP(k, items) == [t |-> "abs", k |-> k, items |-> items]
Grp(k, parts) == [t |-> "group", k |-> k, parts |-> parts]
Pool == { V("x", 4), V("x", -4), V("x", 8), V("y", 4), Num(4), Num(-2),
          AbsP(4, <<V("x", 4)>>), AbsP(8, <<V("x", 4)>>), AbsP(-4, <<V("x", 4)>>), AbsP(2, <<V("x", 4)>>),
          AbsP(4, <<V("x", 4), Num(4)>>), AbsP(4, <<V("y", 4)>>), AbsP(4, <<V("x", -4)>>),
          Grp(8, <<AbsP(4, <<V("x", 4)>>), V("x", 4)>>), Grp(-4, <<AbsP(4, <<V("x", 4)>>)>>),
          Grp(2, <<AbsP(8, <<V("y", 4)>>), Num(4)>>) }
Sides(n) == UNION {[1..m -> Pool] : m \in 1..n}
VARIABLE rel
\* two steps, so that TLC's workers share the work: first the left side, then operator and right side
Init == \E l \in Sides(MaxParts) : rel = [op |-> "?", sides |-> <<l>>]
Next == rel.op = "?" /\ \E op \in {"<=", ">="} : \E r \in Sides(1) : rel' = [op |-> op, sides |-> <<rel.sides[1], r>>]
Spec == Init /\ [][Next]_rel
Complete == rel.op # "?"

Names == <<"x", "y">>
Pts == [{"x", "y"} -> (-GridN)..GridN]     \* points q/2
SideMeaning == Complete => \A m \in DOMAIN rel.sides : \A p \in Pts :
                  SameValueAt(IROfParts(rel.sides[m], 1), SideOf(rel.sides[m], 1), p, 2)
LinkMeaning == Complete =>
  LET x == LinkIR(rel, 1)  link == LinkExprs(rel)[1] IN
  ConvexOK(x) => \A p \in Pts : RowsHoldAt(ExpandRows(x), p, 2) = (SideAt(link, p, 2) <= 0)
ConvexityErrorJustified == (Complete /\ ~ConvexOK(LinkIR(rel, 1))) => HasNegativeAbs(rel)
=====================================================================
