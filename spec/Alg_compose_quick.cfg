SPECIFICATION Spec
CONSTANTS
  Vars = {x, y}
  MaxG = 1
  Strong = FALSE
  Ops = {"compose"}
SYMMETRY Sym
INVARIANT Sound
INVARIANT WF
INVARIANT ExcOK
CHECK_DEADLOCK FALSE
