SPECIFICATION Spec
CONSTANTS
  MaxLen = 1000
  NSeed = 6
  EmitLen = 16
  OpFilter <- TwinOps
  NParam = 4
CONSTRAINT Emit
CHECK_DEADLOCK FALSE
