SPECIFICATION Spec
CONSTANTS
  Vars = {x, y}
  MaxG = 1
  Strong = TRUE
  Ops = {"compose", "merge"}
SYMMETRY Sym
INVARIANT Keeps
INVARIANT WF
INVARIANT ExcOK
CHECK_DEADLOCK FALSE
