SPECIFICATION Spec
CONSTANTS
  VarIds = {1, 2, 3}
  CoT <- SetA
  CoR <- SetB
  ConstT = {3}
  ConstR = {2}
  Grid <- SetG
  SameSolution = TRUE
INVARIANT Laws
CHECK_DEADLOCK FALSE
