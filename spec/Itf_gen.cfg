SPECIFICATION Spec
CONSTANTS
  Vars = {v1, v2, v3}
CONSTRAINT Emit
CHECK_DEADLOCK FALSE
