---------------------------- MODULE Session ----------------------------
(***************************************************************************)
(* pacti as a SESSION: a pool of values (contracts and constraint lists)   *)
(* and one action per public operation; results are appended to the pool   *)
(* and may be used by later operations (C13, C14, C19).                    *)
(*                                                                         *)
(* The model is deliberately abstract about values (a value is its kind);  *)
(* what it fixes is the operation alphabet with its typing, i.e. the set   *)
(* of well-formed histories.  TLC enumerates all histories up to a small   *)
(* length and, with -simulate, emits long random histories that are        *)
(* replayed into the real library (lib/sessdrv.py).  The purity laws are   *)
(* stated here over observation records and evaluated by TraceSession.tla  *)
(* on every recorded step.                                                 *)
(***************************************************************************)
EXTENDS Integers, Sequences, FiniteSets, TLC, Json
CONSTANTS MaxLen, NSeed, NParam, EmitLen,
          OpFilter     \* the operations a configuration may use (AllOps, or a focused subset)

\* operation |-> <<argument kinds, result kind>> ; "C" contract, "L" constraint list, "K" compound contract, "T" single term, "S" scalar/none
Sig == [ compose |-> <<(<<"C", "C">>), "C">>, quotient |-> <<(<<"C", "C">>), "C">>, merge |-> <<(<<"C", "C">>), "C">>,
         refines |-> <<(<<"C", "C">>), "S">>, rename |-> <<(<<"C">>), "C">>, copy |-> <<(<<"C">>), "C">>,
         simplify |-> <<(<<"L", "L">>), "L">>, elim_refine |-> <<(<<"L", "L">>), "L">>, elim_relax |-> <<(<<"L", "L">>), "L">>,
         optimize |-> <<(<<"C">>), "S">>, dict_roundtrip |-> <<(<<"C">>), "C">>, string_roundtrip |-> <<(<<"C">>), "C">>,
         parse |-> <<(<<>>), "L">>, assumptions |-> <<(<<"C">>), "L">>, guarantees |-> <<(<<"C">>), "L">>,
         list_refines |-> <<(<<"L", "L">>), "S">>, contains |-> <<(<<"L">>), "S">>, union |-> <<(<<"L", "L">>), "L">>,
         terms_with_vars |-> <<(<<"L">>), "L">>, is_empty |-> <<(<<"L">>), "S">>, list_copy |-> <<(<<"L">>), "L">>,
         difference |-> <<(<<"L", "L">>), "L">>, contains_env |-> <<(<<"C", "L">>), "S">>, contains_impl |-> <<(<<"C", "L">>), "S">>,
         printed |-> <<(<<"C">>), "S">>, evaluate |-> <<(<<"L">>), "L">>,
         \* the ONE public operation that edits its target: IoContract.simplify() replaces the guarantees of the contract it is
         \* called on (the pool slot appended is an independent rebuild of the target's new value)
         simplify_inplace |-> <<(<<"C">>), "C">>,
         hash_eq |-> <<(<<"C", "C">>), "S">>, list_hash_eq |-> <<(<<"L", "L">>), "S">>,
         \* the public methods of a single term (PolyhedralTerm): what the tactics are built from
         pick_term |-> <<(<<"L">>), "T">>, term_rename |-> <<(<<"T">>), "T">>, term_isolate |-> <<(<<"T">>), "T">>,
         term_substitute |-> <<(<<"T", "T">>), "T">>, term_add |-> <<(<<"T", "T">>), "T">>, term_multiply |-> <<(<<"T">>), "T">>,
         term_remove |-> <<(<<"T">>), "T">>, term_queries |-> <<(<<"T">>), "S">>, list_of_terms |-> <<(<<"T", "T">>), "L">>,
         \* the contract constructor on two pool lists (it copies what it is given; interface = the variables they mention)
         construct |-> <<(<<"L", "L">>), "C">>,
         \* read-only queries that hand out lists: the interface of a contract, the variables of a list
         vars_query |-> <<(<<"C">>), "S">>, list_vars_query |-> <<(<<"L">>), "S">>,
         cmerge |-> <<(<<"K", "K">>), "K">>, ccontains |-> <<(<<"K">>), "S">>, cprinted |-> <<(<<"K">>), "S">>, ceq |-> <<(<<"K", "K">>), "S">> ]
Mutators == {"simplify_inplace"}      \* operations allowed to change their FIRST argument, and nothing else
AllOps == DOMAIN Sig
FocusOps == {"compose", "quotient", "copy", "elim_refine", "merge", "rename"}
TermOps == {"construct", "difference", "pick_term", "term_rename", "term_isolate", "term_substitute", "term_add", "term_multiply", "term_remove", "term_queries", "list_of_terms",
            "is_empty", "simplify", "list_copy", "contains"}
TwinOps == {"list_refines", "refines", "is_empty", "simplify", "union", "contains_env", "contains_impl", "optimize", "list_copy", "copy", "vars_query"}
HashOps == {"copy", "simplify_inplace", "hash_eq", "rename", "dict_roundtrip", "compose", "merge"}
SolverOps == {"optimize", "is_empty", "copy", "simplify"}     \* LP-backed queries on a small pool: what one solve leaves behind would show in the next
Ops == DOMAIN Sig \cap OpFilter

VARIABLES kinds,   \* kinds[i] : kind of pool member i ("C" / "L" / "S")
          hist,    \* sequence of [op, args, param]
          pend     \* the operation chosen for the next call ("none" between calls): choosing the operation
                   \* first makes -simulate sample operations uniformly, not in proportion to their argument choices
vars == <<kinds, hist, pend>>

Init == kinds = [i \in 1..NSeed |-> IF i % 3 = 0 THEN "L" ELSE IF i % 4 = 0 THEN "K" ELSE IF i % 5 = 0 THEN "T" ELSE "C"] /\ hist = <<>> /\ pend = "none"

ArgChoices(ks) ==   \* all index tuples into the pool with the required kinds
  IF Len(ks) = 0 THEN {<<>>}
  ELSE IF Len(ks) = 1 THEN {<<i>> : i \in {j \in DOMAIN kinds : kinds[j] = ks[1]}}
  ELSE {<<i, j>> : i \in {x \in DOMAIN kinds : kinds[x] = ks[1]}, j \in {y \in DOMAIN kinds : kinds[y] = ks[2]}}

Choose(op) == pend = "none" /\ Len(hist) < MaxLen /\ ArgChoices(Sig[op][1]) # {} /\ pend' = op /\ UNCHANGED <<kinds, hist>>
Call(op, args, p) ==
  /\ pend = op /\ pend' = "none"
  /\ Len(hist) < MaxLen
  /\ hist' = Append(hist, [op |-> op, args |-> args, param |-> p])
  /\ kinds' = Append(kinds, Sig[op][2])     \* every call appends one pool slot (a failed call leaves it unusable)
\* generator mode: at length EmitLen the only step is the sentinel "end", so that -simulate, which
\* evaluates the constraint on every successor, prints each sampled history exactly once
End == /\ Len(hist) = EmitLen /\ pend = "none"
       /\ hist' = Append(hist, [op |-> "end", args |-> <<>>, param |-> 0]) /\ UNCHANGED <<kinds, pend>>
Next == \/ Len(hist) < EmitLen /\ \E op \in Ops : Choose(op)
        \/ Len(hist) < EmitLen /\ \E op \in Ops : \E args \in ArgChoices(Sig[op][1]) : \E p \in 0..(NParam - 1) : Call(op, args, p)
        \/ End
Spec == Init /\ [][Next]_vars

\* typing invariant of histories: every argument refers to an earlier pool slot of the right kind
WellTyped ==
  \A n \in {m \in DOMAIN hist : hist[m].op # "end"} :
    LET h == hist[n]  ks == Sig[h.op][1] IN
    /\ Len(h.args) = Len(ks)
    /\ \A a \in DOMAIN ks : h.args[a] < NSeed + n /\ kinds[h.args[a]] = ks[a]
\* generator: print each complete history once (used with -simulate)
Emit == (Len(hist) = EmitLen + 1) => PrintT(<<"HISTORY", ToJson(SubSeq(hist, 1, EmitLen))>>)

(* ---- the laws, over one observation record ------------------------------ *)
(* o: [pre, post, alias : Seq(snapshot id), gpre, gpost : snapshot id,     *)
(*     res, fresh : snapshot id, exc, fexc : STRING]                        *)
(*     pairs : Seq(<<x == y, hash(x) = hash(y)>>) (hash_eq / list_hash_eq)] *)
Untouched(o, i) == o.post[i] = o.pre[i]
OperandsUnchanged(o) ==
  /\ o.gpost = o.gpre /\ Len(o.post) = Len(o.pre)
  /\ \A i \in DOMAIN o.pre : Untouched(o, i) \/ (o.op \in Mutators /\ i = o.args[1])
\* a mutator leaves its target in exactly the state it reports
TargetAsReported(o) == (o.op \in Mutators /\ o.exc = "none") => o.post[o.args[1]] = o.res
\* equal objects hash equally, at every point of a session (C19)
HashCoherent(o) == \A k \in DOMAIN o.pairs : o.pairs[k][1] => o.pairs[k][2]
NoAliasing(o) == o.alias = o.post
FreshAgrees(o) == o.fresh = o.res /\ o.fexc = o.exc
=====================================================================
