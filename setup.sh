#!/bin/sh
# Offline setup: nothing to build; verify the tools the checks need are present.
set -e
cd "$(dirname "$0")"
command -v java >/dev/null
test -f /opt/veriftools/tla/tla2tools.jar
/venv/bin/python -c "import z3, numpy, scipy, sympy, pyparsing" 
chmod +x ./check
mkdir -p out evidence
for f in spec/*.tla; do :; done
echo "setup ok"
